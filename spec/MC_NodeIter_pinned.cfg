SPECIFICATION Spec
CONSTANTS
  MaxN = 7
  MaxM = 9
  MaxCalls = 4
  Fixed = FALSE
INVARIANTS Refines
CHECK_DEADLOCK FALSE
