----------------------------- MODULE BeamImpl -----------------------------
(* DebruijnGraph::max_path_beam / expand_state (graph.rs) as a state machine: one action per round of the beam search.
   C03: the best-path query returns a walk along reported edges, correctly oriented and spelled.
   Fixed = FALSE is the code as pinned: a state whose end node still has extension bits but none of them resolves to
   a node is dropped, the beam can run empty and `states[0]` panics (defect F7 of DESIGN section 7). *)
EXTENDS Dbg, SequencesExt, TLC
CONSTANTS K, Stranded, Inputs, Holes, Beam, Fixed
VARIABLES inp, g, phase, states
vars == <<inp, g, phase, states>>

RECURSIVE LexSeq(_)
LexSeq(S) == IF S = {} THEN <<>> ELSE LET m == CHOOSE x \in S : \A y \in S : y = x \/ LexLess(x, y) IN <<m>> \o LexSeq(S \ {m})
OnePerKmer(T, keys) == [j \in 1..Len(keys) |-> [s |-> keys[j], l |-> SortSet(T[keys[j]].l), r |-> SortSet(T[keys[j]].r), d |-> T[keys[j]].d]]

Score(n) == g[n].d[1]
EdgeSeq(n, d) ==
  LET F[b \in 0..4] == IF b = 0 THEN <<>>
                       ELSE LET hit == IF (b - 1) \in BasesOf(g[n], d) THEN Lookup(K, Stranded, g, ExtK(TermK(K, g[n], d), d, b - 1), d) ELSE {}
                            IN IF hit = {} THEN F[b - 1] ELSE Append(F[b - 1], CHOOSE t \in hit : TRUE)
  IN F[4]
NExt(n, d) == Cardinality(BasesOf(g[n], d))

\* the start states: every node with no extension BIT on one side (bits, not resolvable edges - as the code does)
StartOf(n) ==
  LET dir == IF NExt(n, "L") > 0 THEN "R" ELSE "L"
      st == IF NExt(n, "L") = 0 /\ NExt(n, "R") = 0 THEN "End" ELSE "Active"
  IN [path |-> <<<<n, dir>>>>, status |-> st, score |-> Score(n)]
Starts == LET F[n \in 0..Len(g)] == IF n = 0 THEN <<>>
                                    ELSE IF NExt(n, "L") = 0 \/ NExt(n, "R") = 0 THEN Append(F[n - 1], StartOf(n)) ELSE F[n - 1]
          IN F[Len(g)]
\* expand_state: one successor per reported edge of the far side of the last node
Expand(s) ==
  LET last == s.path[Len(s.path)]
      es == EdgeSeq(last[1], Opp(last[2]))
  IN [j \in 1..Len(es) |->
        LET nx == es[j]
            cyc == \E q \in 1..Len(s.path) : s.path[q][1] = nx[1]
            st == IF cyc THEN "Cycle" ELSE IF EdgeSeq(nx[1], Opp(nx[2])) = <<>> THEN "End" ELSE "Active"
        IN [path |-> Append(s.path, <<nx[1], nx[2]>>), status |-> st, score |-> s.score + Score(nx[1])]]
\* stable sort by descending score, as Vec::sort_by does
Insert(x, sorted) ==
  LET pos == Cardinality({q \in 1..Len(sorted) : sorted[q].score >= x.score})
  IN SubSeq(sorted, 1, pos) \o <<x>> \o SubSeq(sorted, pos + 1, Len(sorted))
StableSort(s) == LET F[j \in 0..Len(s)] == IF j = 0 THEN <<>> ELSE Insert(s[j], F[j - 1]) IN F[Len(s)]
Truncate(s) == SubSeq(s, 1, IF Len(s) < Beam THEN Len(s) ELSE Beam)

Init == /\ inp \in Inputs
        /\ g = <<>> /\ phase = "build" /\ states = <<>>
Build == /\ phase = "build"
         /\ \E desc \in BOOLEAN : \E hole \in (IF Holes THEN 0..3 ELSE {0}) :
              LET T == RefTable(K, Stranded, 1, inp)
                  ks == LexSeq(DOMAIN T)
                  kept == IF hole = 0 \/ hole > Len(ks) THEN ks ELSE SelectSeq(ks, LAMBDA x : x # ks[hole])
              IN g' = OnePerKmer(T, IF desc THEN Rev(kept) ELSE kept)
         /\ phase' = "start"
         /\ UNCHANGED <<inp, states>>
Start == /\ phase = "start"
         /\ IF Len(g) = 0 THEN phase' = "done" /\ states' = <<>>
            ELSE /\ phase' = "search"
                 /\ states' = (IF Starts = <<>> THEN <<[path |-> <<<<1, "L">>>>, status |-> "Active", score |-> Score(1)]>> ELSE Starts)
         /\ UNCHANGED <<inp, g>>
\* one round of the while loop
Round == /\ phase = "search"
         /\ IF \A q \in 1..Len(states) : states[q].status # "Active"
            THEN \* `active` stays false: the loop ends and states[0] is read
                 /\ phase' = (IF states = <<>> THEN "panic" ELSE "done")
                 /\ UNCHANGED states
            ELSE LET F[q \in 0..Len(states)] ==
                       IF q = 0 THEN <<>>
                       ELSE LET s == states[q] IN
                            IF s.status # "Active" THEN Append(F[q - 1], s)
                            ELSE LET ex == Expand(s) IN
                                 IF ex = <<>> /\ Fixed THEN Append(F[q - 1], [s EXCEPT !.status = "End"])
                                 ELSE F[q - 1] \o ex
                 IN states' = Truncate(StableSort(F[Len(states)])) /\ UNCHANGED phase
         /\ UNCHANGED <<inp, g>>
Next == Build \/ Start \/ Round
Spec == Init /\ [][Next]_vars
FairSpec == Spec /\ WF_vars(Next)
Terminates == <>(phase \in {"done", "panic"})

\* ---- C03 on every path in the beam, at every moment
Oriented(x) == IF x[2] = "L" THEN g[x[1]].s ELSE RC(g[x[1]].s)
IsPal(n) == PalNode(K, Stranded, g[n])
OutEdges(x) == IF IsPal(x[1]) THEN EdgeSetOf(K, Stranded, g, x[1], "L") \cup EdgeSetOf(K, Stranded, g, x[1], "R")
               ELSE EdgeSetOf(K, Stranded, g, x[1], Opp(x[2]))
IsWalk(p) == \A j \in 1..(Len(p) - 1) : \E t \in OutEdges(p[j]) : t[1] = p[j + 1][1] /\ (t[2] = p[j + 1][2] \/ IsPal(p[j + 1][1]))
Overlaps(p) == \A j \in 1..(Len(p) - 1) :
                 LET a == Oriented(p[j])  c == Oriented(p[j + 1]) IN Seg(a, Len(a) - K + 2, Len(a)) = Seg(c, 1, K - 1)
NoPanic == phase # "panic"
WalksOK == \A q \in 1..Len(states) : IsWalk(states[q].path) /\ Overlaps(states[q].path)
\* only a state marked Cycle repeats a node, and only its last one
RepeatsOK == \A q \in 1..Len(states) :
               LET p == states[q].path
                   body == IF states[q].status = "Cycle" THEN SubSeq(p, 1, Len(p) - 1) ELSE p
               IN Cardinality({body[j][1] : j \in 1..Len(body)}) = Len(body)
ScoresOK == \A q \in 1..Len(states) : LET p == states[q].path IN
              states[q].score = (LET S[j \in 0..Len(p)] == IF j = 0 THEN 0 ELSE S[j - 1] + Score(p[j][1]) IN S[Len(p)])
Sorted == phase = "done" => \A q \in 1..(Len(states) - 1) : states[q].score >= states[q + 1].score
TypeOK == phase \in {"build", "start", "search", "done", "panic"}
=============================================================================
