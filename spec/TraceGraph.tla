------------------------------ MODULE TraceGraph ------------------------------
(* Trace specification of the graph domain: every event recorded from the real  *)
(* crate (one public call at its return, with its inputs and projected result)  *)
(* must be a step the abstract specification (Dbg) allows.  The machine never   *)
(* blocks: a rejected event prints FAIL with the names of the violated clauses  *)
(* and the next event is examined.                                              *)
EXTENDS Dbg, Json, IOUtils, TLC

Rec == ndJsonDeserialize(IOEnv.TRACE)

VARIABLE l

NodesOK(ns) == \A n \in 1..Len(ns) : \A i \in 1..Len(ns[n].s) : ns[n].s[i] \in Base

\* ---------------------------------------------------------------- compress (C01 C02 C03)
TableOfEvent(e) ==
  LET tab == e.table  NT == Len(tab)  st == e.st
      keys == {tab[i].k : i \in 1..NT}
      Idx(k) == CHOOSE i \in 1..NT : tab[i].k = k
  IN IF e.entry = "noexts"
     THEN [k \in keys |-> [l |-> {a \in Base : C(st, Pred(k, a)) \in keys},
                           r |-> {b \in Base : C(st, Succ(k, b)) \in keys},
                           d |-> tab[Idx(k)].d]]
     ELSE [k \in keys |-> [l |-> SetOf(tab[Idx(k)].l), r |-> SetOf(tab[Idx(k)].r), d |-> tab[Idx(k)].d]]

CompressFails(e) ==
  IF e.panic # "" THEN {"PANIC"}
  ELSE IF ~NodesOK(e.nodes) THEN {"V1"}
  ELSE GraphFails(e.K, e.st, e.mode, TableOfEvent(e), e.nodes)

\* ---------------------------------------------------------------- recompress (C09)
RecompressFails(e) ==
  LET K == e.K  st == e.st  g == e.g
      cens == {c + 1 : c \in SetOf(e.censor)}
      valid == (1..Len(g)) \ cens
  IN IF ~WellFormedGraph(K, st, g) THEN {}                       \* not a valid graph: outside the quantifier
     ELSE IF e.panic # "" THEN {"PANIC"}
     ELSE IF ~NodesOK(e.out) THEN {"V1"}
     ELSE LET T0 == TableOfGraph(K, st, e.mode, g)
              surv == UNION {KmersOfNode(K, st, g[n]) : n \in valid}
              T == Prune(st, T0, surv)
          IN GraphFails(K, st, e.mode, T, e.out) \cup (IF e.dangling = 0 THEN {} ELSE {"DANGLING"})

\* ---------------------------------------------------------------- graphq (C03 C19)
Tup3(a) == <<a[1] + 1, a[2], a[3]>>            \* logged node ids are 0-based
GraphqFails(e) ==
  IF e.panic # "" THEN {"PANIC"} ELSE
  LET K == e.K  st == e.st  nodes == e.nodes  NN == Len(nodes)
      Look(y, d) == Lookup(K, st, nodes, y, d)
      EdgeSet(n, d) == UNION {Look(ExtK(TermK(K, nodes[n], d), d, b), d) : b \in BasesOf(nodes[n], d)}
      Resolvable(n, d) == {b \in BasesOf(nodes[n], d) : Look(ExtK(TermK(K, nodes[n], d), d, b), d) # {}}
      keep == DOMAIN RefTable(K, st, e.thr, e.reads)
      IsPal(n) == PalNode(K, st, nodes[n])
      Oriented(x) == IF x[2] = "L" THEN nodes[x[1] + 1].s ELSE RC(nodes[x[1] + 1].s)
      SpellAll(p) == LET F[i \in 0..Len(p)] ==
                           IF i = 0 THEN <<>>
                           ELSE IF i = 1 THEN Oriented(p[1])
                           ELSE LET nx == Oriented(p[i]) IN F[i-1] \o SubSeq(nx, K, Len(nx))
                     IN F[Len(p)]
      \* a path entry <<n, d>>: node n entered through side d; the next edge leaves through the other side
      OutEdges(x) == IF IsPal(x[1] + 1) THEN EdgeSet(x[1] + 1, "L") \cup EdgeSet(x[1] + 1, "R")
                     ELSE EdgeSet(x[1] + 1, Opp(x[2]))
      IsWalk(p) == \A i \in 1..(Len(p) - 1) :
                     \E t \in OutEdges(p[i]) : t[1] = p[i+1][1] + 1 /\ (t[2] = p[i+1][2] \/ IsPal(p[i+1][1] + 1))
      Overlaps(p) == \A i \in 1..(Len(p) - 1) :
                       LET a == Oriented(p[i])  c == Oriented(p[i+1]) IN
                       SubSeq(a, Len(a) - K + 2, Len(a)) = SubSeq(c, 1, K - 1)
      KmersSpelled(p) == Kmers(SpellAll(p), K)
      KmersWalked(p) == LET F[i \in 0..Len(p)] == IF i = 0 THEN <<>> ELSE F[i-1] \o Kmers(Oriented(p[i]), K) IN F[Len(p)]
      \* E1: every find_link answer is the abstract lookup
      E1 == \A i \in 1..Len(e.probes) :
              LET pr == e.probes[i]  want == Look(pr.k, pr.dir) IN
              IF pr.ans = <<>> THEN want = {} ELSE want = {Tup3(pr.ans)}
      \* E2: edge lists = resolvable extensions, one edge per extension base, same through every accessor
      E2 == \A i \in 1..Len(e.edges) :
              LET x == e.edges[i] IN
              /\ {Tup3(x.e[j]) : j \in 1..Len(x.e)} = EdgeSet(x.n + 1, x.dir)
              /\ Len(x.e) = Cardinality(Resolvable(x.n + 1, x.dir))
              /\ x.same
      \* E3: resolvable adjacencies = (K+1)-mers observed between retained k-mers
      E3 == Links(K, st, nodes) = ObsLinks(K, st, e.reads, keep)
      \* E4: symmetry (both sides of a palindromic single-k-mer node count as one)
      E4 == \A n \in 1..NN : \A d \in {"L", "R"} : \A t \in EdgeSet(n, d) :
              LET back(sd) == \E u \in EdgeSet(t[1], sd) : u[1] = n /\ (u[2] = d \/ IsPal(n))
              IN back(t[2]) \/ (IsPal(t[1]) /\ back(Opp(t[2])))
      \* E5: walks along reported edges spell the walked nodes' k-mers in order
      E5 == \A i \in 1..Len(e.paths) :
              LET p == e.paths[i].p IN
              IsWalk(p) => /\ Overlaps(p) /\ e.paths[i].s = SpellAll(p)
                           /\ KmersSpelled(p) = KmersWalked(p)
      \* E6: the best path is such a walk with no node repeated
      E6 == LET p == e.maxpath.p IN
            IF NN = 0 THEN p = <<>>
            ELSE /\ Len(p) >= 1 /\ IsWalk(p) /\ Overlaps(p) /\ e.maxpath.s = SpellAll(p)
                 /\ KmersSpelled(p) = KmersWalked(p)
                 /\ Cardinality({p[i][1] : i \in 1..Len(p)}) = Len(p)
      \* E7: the table was pruned, so no extension is left dangling
      E7 == \A n \in 1..NN : \A d \in {"L", "R"} : Resolvable(n, d) = BasesOf(nodes[n], d)
  IN {c \in {"E1", "E2", "E3", "E4", "E5", "E6", "E7"} :
        ~(CASE c = "E1" -> E1 [] c = "E2" -> E2 [] c = "E3" -> E3 [] c = "E4" -> E4
            [] c = "E5" -> E5 [] c = "E6" -> E6 [] c = "E7" -> E7)}

\* ---------------------------------------------------------------- prune (C03)
PruneFails(e) ==
  IF e.panic # "" THEN {"PANIC"} ELSE
  LET st == e.st  bef == e.before  NB == Len(bef)
      keys == {bef[i].k : i \in 1..NB}
      all == SetOf(e.all)
      SameShape(aft) == Len(aft) = NB /\ \A i \in 1..NB : aft[i].k = bef[i].k /\ aft[i].d = bef[i].d
      P1 == /\ SameShape(e.plain)
            /\ \A i \in 1..NB : LET k == bef[i].k IN
                 /\ SetOf(e.plain[i].l) = {a \in SetOf(bef[i].l) : C(st, Pred(k, a)) \in keys}
                 /\ SetOf(e.plain[i].r) = {b \in SetOf(bef[i].r) : C(st, Succ(k, b)) \in keys}
      Cens(x) == x \notin keys /\ x \in all
      P2 == /\ SameShape(e.sharded)
            /\ \A i \in 1..NB : LET k == bef[i].k IN
                 /\ SetOf(e.sharded[i].l) = {a \in SetOf(bef[i].l) : ~Cens(C(st, Pred(k, a)))}
                 /\ SetOf(e.sharded[i].r) = {b \in SetOf(bef[i].r) : ~Cens(C(st, Succ(k, b)))}
  IN {c \in {"P1", "P2"} : ~(CASE c = "P1" -> P1 [] c = "P2" -> P2)}

FixextsFails(e) ==
  IF e.panic # "" THEN {"PANIC"} ELSE
  LET K == e.K  st == e.st  g == e.g  NN == Len(g)
      valid == {v + 1 : v \in SetOf(e.valid)}
      OKT(t) == ~e.use_valid \/ t[1] \in valid
      Keep(n, d) == {b \in BasesOf(g[n], d) : \E t \in Lookup(K, st, g, ExtK(TermK(K, g[n], d), d, b), d) : OKT(t)}
      P3 == /\ Len(e.after) = NN
            /\ \A n \in 1..NN : /\ e.after[n].s = g[n].s /\ e.after[n].d = g[n].d
                                /\ SetOf(e.after[n].l) = Keep(n, "L") /\ SetOf(e.after[n].r) = Keep(n, "R")
  IN IF P3 THEN {} ELSE {"P3"}

\* ---------------------------------------------------------------- machine
Fails(e) ==
  CASE e.op = "compress"   -> CompressFails(e)
    [] e.op = "recompress" -> RecompressFails(e)
    [] e.op = "graphq"     -> GraphqFails(e)
    [] e.op = "prune"      -> PruneFails(e)
    [] e.op = "fixexts"    -> FixextsFails(e)
    [] e.op = "timeout"    -> {"TIMEOUT"}
    [] OTHER -> {"UNKNOWN-OP"}

Init == l = 1
Next == /\ l <= Len(Rec)
        /\ l' = l + 1
        /\ LET f == Fails(Rec[l]) IN
             f = {} \/ PrintT(<<"FAIL", l, Rec[l].case, Rec[l].op, f>>)
Spec == Init /\ [][Next]_l
\* a silently truncated run must not count as a pass
Complete == PrintT(<<"DONE", TLCGet("stats").diameter - 1, Len(Rec)>>)
=============================================================================
