------------------------------ MODULE TraceGraph ------------------------------
(* Trace specification of the graph domain: every event recorded from the real  *)
(* crate (one public call at its return, with its inputs and projected result)  *)
(* must be a step the abstract specification (Dbg) allows.  The machine never   *)
(* blocks: a rejected event prints FAIL with the names of the violated clauses  *)
(* and the next event is examined.                                              *)
EXTENDS Dbg, Json, IOUtils, TLC

Rec == ndJsonDeserialize(IOEnv.TRACE)

VARIABLES l, lc      \* position in the trace; abstract state of the running life-cycle history (table, current graph)

NodesOK(ns) == \A n \in 1..Len(ns) : \A i \in 1..Len(ns[n].s) : ns[n].s[i] \in Base

\* ---------------------------------------------------------------- compress (C01 C02 C03)
TableOfEvent(e) ==
  LET tab == e.table  NT == Len(tab)  st == e.st
      keys == {tab[i].k : i \in 1..NT}
      Idx(k) == CHOOSE i \in 1..NT : tab[i].k = k
  IN IF e.entry = "noexts"
     THEN [k \in keys |-> [l |-> {a \in Base : C(st, Pred(k, a)) \in keys},
                           r |-> {b \in Base : C(st, Succ(k, b)) \in keys},
                           d |-> tab[Idx(k)].d]]
     ELSE [k \in keys |-> [l |-> SetOf(tab[Idx(k)].l), r |-> SetOf(tab[Idx(k)].r), d |-> tab[Idx(k)].d]]

CompressFails(e) ==
  IF e.panic # "" THEN {"PANIC"}
  ELSE IF ~NodesOK(e.nodes) THEN {"V1"}
  ELSE GraphFails(e.K, e.st, e.mode, TableOfEvent(e), e.nodes)

\* ---------------------------------------------------------------- recompress (C09)
RecompressFails(e) ==
  LET K == e.K  st == e.st  g == e.g
      cens == {c + 1 : c \in SetOf(e.censor)}
      valid == (1..Len(g)) \ cens
  IN IF ~WellFormedGraph(K, st, g) \/ ~SymmetricGraph(K, st, g) THEN {}   \* not a valid graph: outside the quantifier
     ELSE IF e.panic # "" THEN {"PANIC"}
     ELSE IF ~NodesOK(e.out) THEN {"V1"}
     ELSE LET T0 == TableOfGraph(K, st, e.mode, g)
              surv == UNION {KmersOfNode(K, st, g[n]) : n \in valid}
              T == Prune(st, T0, surv)
              \* CleanGraph::find_bad_nodes with the predicate "shorter than 2K": exactly the nodes with no extension on one
              \* side, at most one on the other, and satisfying the predicate
              TipSet == {n \in 1..Len(g) :
                           LET nl == Cardinality(SetOf(g[n].l))  nr == Cardinality(SetOf(g[n].r)) IN
                           ((nl = 0 /\ nr <= 1) \/ (nr = 0 /\ nl <= 1)) /\ Len(g[n].s) < 2 * K}
              tipsOK == ~e.tips \/ cens = TipSet
          IN GraphFails(K, st, e.mode, T, e.out) \cup (IF e.dangling = 0 THEN {} ELSE {"DANGLING"}) \cup (IF tipsOK THEN {} ELSE {"TIPS"})

\* ---------------------------------------------------------------- graphq (C03 C19)
Tup3(a) == <<a[1] + 1, a[2], a[3]>>            \* logged node ids are 0-based
GraphqFails(e) ==
  IF e.panic # "" THEN {"PANIC"} ELSE
  LET K == e.K  st == e.st  nodes == e.nodes  NN == Len(nodes)
      Look(y, d) == Lookup(K, st, nodes, y, d)
      EdgeSet(n, d) == UNION {Look(ExtK(TermK(K, nodes[n], d), d, b), d) : b \in BasesOf(nodes[n], d)}
      Resolvable(n, d) == {b \in BasesOf(nodes[n], d) : Look(ExtK(TermK(K, nodes[n], d), d, b), d) # {}}
      keep == DOMAIN RefTable(K, st, e.thr, e.reads)
      IsPal(n) == PalNode(K, st, nodes[n])
      Oriented(x) == IF x[2] = "L" THEN nodes[x[1] + 1].s ELSE RC(nodes[x[1] + 1].s)
      SpellAll(p) == LET F[i \in 0..Len(p)] ==
                           IF i = 0 THEN <<>>
                           ELSE IF i = 1 THEN Oriented(p[1])
                           ELSE LET nx == Oriented(p[i]) IN F[i-1] \o Seg(nx, K, Len(nx))
                     IN F[Len(p)]
      \* a path entry <<n, d>>: node n entered through side d; the next edge leaves through the other side
      OutEdges(x) == IF IsPal(x[1] + 1) THEN EdgeSet(x[1] + 1, "L") \cup EdgeSet(x[1] + 1, "R")
                     ELSE EdgeSet(x[1] + 1, Opp(x[2]))
      PathOK(p) == \A i \in 1..Len(p) : p[i][1] >= 0 /\ p[i][1] < NN /\ p[i][2] \in {"L", "R"}
      IsWalk(p) == \A i \in 1..(Len(p) - 1) :
                     \E t \in OutEdges(p[i]) : t[1] = p[i+1][1] + 1 /\ (t[2] = p[i+1][2] \/ IsPal(p[i+1][1] + 1))
      Overlaps(p) == \A i \in 1..(Len(p) - 1) :
                       LET a == Oriented(p[i])  c == Oriented(p[i+1]) IN
                       Seg(a, Len(a) - K + 2, Len(a)) = Seg(c, 1, K - 1)
      KmersSpelled(p) == Kmers(SpellAll(p), K)
      KmersWalked(p) == LET F[i \in 0..Len(p)] == IF i = 0 THEN <<>> ELSE F[i-1] \o Kmers(Oriented(p[i]), K) IN F[Len(p)]
      \* E1: every find_link answer is the abstract lookup
      E1 == \A i \in 1..Len(e.probes) :
              LET pr == e.probes[i]  want == Look(pr.k, pr.dir) IN
              IF pr.ans = <<>> THEN want = {} ELSE want = {Tup3(pr.ans)}
      \* E2: edge lists = resolvable extensions, one edge per extension base, same through every accessor
      E2 == \A i \in 1..Len(e.edges) :
              LET x == e.edges[i] IN
              /\ {Tup3(x.e[j]) : j \in 1..Len(x.e)} = EdgeSet(x.n + 1, x.dir)
              /\ Len(x.e) = Cardinality(Resolvable(x.n + 1, x.dir))
              /\ x.same
      \* E3: resolvable adjacencies = (K+1)-mers observed between retained k-mers
      E3 == Links(K, st, nodes) = ObsLinks(K, st, e.reads, keep)
      \* E4: symmetry (both sides of a palindromic single-k-mer node count as one)
      E4 == \A n \in 1..NN : \A d \in {"L", "R"} : \A t \in EdgeSet(n, d) :
              LET back(sd) == \E u \in EdgeSet(t[1], sd) : u[1] = n /\ (u[2] = d \/ IsPal(n))
              IN back(t[2]) \/ (IsPal(t[1]) /\ back(Opp(t[2])))
      \* E5: walks along reported edges spell the walked nodes' k-mers in order
      E5 == \A i \in 1..Len(e.paths) :
              LET p == e.paths[i].p IN
              (PathOK(p) /\ IsWalk(p)) => /\ Overlaps(p) /\ e.paths[i].s = SpellAll(p)
                           /\ KmersSpelled(p) = KmersWalked(p)
      \* E6: the best path is such a walk with no node repeated
      E6 == LET p == e.maxpath.p IN
            IF NN = 0 THEN p = <<>>
            ELSE /\ Len(p) >= 1 /\ PathOK(p) /\ IsWalk(p) /\ Overlaps(p) /\ e.maxpath.s = SpellAll(p)
                 /\ KmersSpelled(p) = KmersWalked(p)
                 /\ Cardinality({p[i][1] : i \in 1..Len(p)}) = Len(p)
      \* E8: the beam-search best path is a walk along reported edges, correctly spelled (its Cycle state may repeat the closing node)
      E8 == LET p == e.beam.p IN
            IF NN = 0 THEN p = <<>>
            ELSE Len(p) >= 1 /\ PathOK(p) /\ IsWalk(p) /\ Overlaps(p) /\ e.beam.s = SpellAll(p)
      \* E7: the table was pruned, so no extension is left dangling (origin "unpruned": the graph compress_kmers builds
      \* straight from a thresholded table, where extensions towards dropped k-mers survive - every other clause still applies)
      E7 == e.origin = "unpruned" \/ \A n \in 1..NN : \A d \in {"L", "R"} : Resolvable(n, d) = BasesOf(nodes[n], d)
  IN {c \in {"E1", "E2", "E3", "E4", "E5", "E6", "E7", "E8"} :
        ~(CASE c = "E1" -> E1 [] c = "E2" -> E2 [] c = "E3" -> E3 [] c = "E4" -> E4
            [] c = "E5" -> E5 [] c = "E6" -> E6 [] c = "E7" -> E7 [] c = "E8" -> E8)}

\* ---------------------------------------------------------------- prune (C03)
PruneFails(e) ==
  IF e.panic # "" THEN {"PANIC"} ELSE
  LET st == e.st  bef == e.before  NB == Len(bef)
      keys == {bef[i].k : i \in 1..NB}
      all == SetOf(e.all)
      SameShape(aft) == Len(aft) = NB /\ \A i \in 1..NB : aft[i].k = bef[i].k /\ aft[i].d = bef[i].d
      P1 == /\ SameShape(e.plain)
            /\ \A i \in 1..NB : LET k == bef[i].k IN
                 /\ SetOf(e.plain[i].l) = {a \in SetOf(bef[i].l) : C(st, Pred(k, a)) \in keys}
                 /\ SetOf(e.plain[i].r) = {b \in SetOf(bef[i].r) : C(st, Succ(k, b)) \in keys}
      Cens(x) == x \notin keys /\ x \in all
      P2 == /\ SameShape(e.sharded)
            /\ \A i \in 1..NB : LET k == bef[i].k IN
                 /\ SetOf(e.sharded[i].l) = {a \in SetOf(bef[i].l) : ~Cens(C(st, Pred(k, a)))}
                 /\ SetOf(e.sharded[i].r) = {b \in SetOf(bef[i].r) : ~Cens(C(st, Succ(k, b)))}
      \* the library's own flow (table and list of seen k-mers both from filter_kmers at threshold flow_thr, the list handed
      \* on as returned): with the whole read set in one shard every extension target was seen, so exactly the extensions
      \* towards rejected k-mers go - the fully pruned reference table
      FT == RefTable(e.K, st, e.flow_thr, e.reads)
      FP == Prune(st, FT, DOMAIN FT)
      P4 == /\ {e.flow[i].k : i \in 1..Len(e.flow)} = DOMAIN FP /\ Len(e.flow) = Cardinality(DOMAIN FP)
            /\ \A i \in 1..Len(e.flow) : e.flow[i].k \in DOMAIN FP =>
                  /\ SetOf(e.flow[i].l) = FP[e.flow[i].k].l /\ SetOf(e.flow[i].r) = FP[e.flow[i].k].r
                  /\ e.flow[i].d = FP[e.flow[i].k].d
  IN {c \in {"P1", "P2", "P4"} : ~(CASE c = "P1" -> P1 [] c = "P2" -> P2 [] c = "P4" -> P4)}

FixextsFails(e) ==
  IF e.panic # "" THEN {"PANIC"} ELSE
  LET K == e.K  st == e.st  g == e.g  NN == Len(g)
      valid == {v + 1 : v \in SetOf(e.valid)}
      OKT(t) == ~e.use_valid \/ t[1] \in valid
      Keep(n, d) == {b \in BasesOf(g[n], d) : \E t \in Lookup(K, st, g, ExtK(TermK(K, g[n], d), d, b), d) : OKT(t)}
      P3 == /\ Len(e.after) = NN
            /\ \A n \in 1..NN : /\ e.after[n].s = g[n].s /\ e.after[n].d = g[n].d
                                /\ SetOf(e.after[n].l) = Keep(n, "L") /\ SetOf(e.after[n].r) = Keep(n, "R")
  IN IF P3 THEN {} ELSE {"P3"}


\* ---------------------------------------------------------------- pipeline (C04)
PipelineFails(e) ==
  IF e.panic # "" THEN {"PANIC"}
  ELSE IF ~NodesOK(e.sharded) \/ ~NodesOK(e.direct) THEN {"S1"} ELSE
  LET K == e.K  st == e.st
      R == RefTable(K, st, e.thr, e.reads)
      T == Prune(st, R, DOMAIN R)
      S1 == GraphFails(K, st, "sum", T, e.sharded) = {}
      S2 == GraphFails(K, st, "sum", T, e.direct) = {}
      S3 == /\ Blocks(K, st, e.sharded) = Blocks(K, st, e.direct)
            /\ Links(K, st, e.sharded) = Links(K, st, e.direct)
  IN {c \in {"S1", "S2", "S3"} : ~(CASE c = "S1" -> S1 [] c = "S2" -> S2 [] c = "S3" -> S3)}

\* ---------------------------------------------------------------- strand (C06)
StrandFails(e) ==
  IF e.panic # "" THEN {"PANIC"} ELSE
  LET K == e.K  st == e.st  ta == e.ta  tb == e.tb
      KeysOf(t) == {t[i].k : i \in 1..Len(t)}
      RowOf(t, k) == t[CHOOSE i \in 1..Len(t) : t[i].k = k]
      \* unstranded: the table does not depend on the orientation in which reads are given
      Y1 == st \/ /\ KeysOf(ta) = KeysOf(tb) /\ Len(ta) = Len(tb)
                  /\ \A k \in KeysOf(ta) :
                       /\ RowOf(ta, k).d = RowOf(tb, k).d
                       /\ (Pal(k) \/ (SetOf(RowOf(ta, k).l) = SetOf(RowOf(tb, k).l) /\ SetOf(RowOf(ta, k).r) = SetOf(RowOf(tb, k).r)))
      \* ... and every key is the smaller of the k-mer and its reverse complement
      Y2 == st \/ \A k \in KeysOf(ta) \cup KeysOf(tb) : k = Canon(k)
      \* ... and neither does the graph (partition, payloads, adjacencies), whichever pipeline built it
      Y3 == st \/ \A i \in 1..Len(e.runs) :
              /\ Blocks(K, st, e.runs[i].a) = Blocks(K, st, e.runs[i].b)
              /\ Links(K, st, e.runs[i].a) = Links(K, st, e.runs[i].b)
      \* stranded: exactly the forward-strand k-mers and links of the reads
      KeepOf(reads) == DOMAIN RefTable(K, TRUE, e.thr, reads)
      FwdOnly(reads, g) ==
        /\ UNION {KmersOfNode(K, TRUE, g[n]) : n \in 1..Len(g)} = KeepOf(reads)
        /\ Links(K, TRUE, g) = ObsLinks(K, TRUE, reads, KeepOf(reads))
      Y4 == ~st \/ (KeysOf(ta) = KeepOf(e.reads) /\ KeysOf(tb) = KeepOf(e.reads2))
      Y5 == ~st \/ \A i \in 1..Len(e.runs) : FwdOnly(e.reads, e.runs[i].a) /\ FwdOnly(e.reads2, e.runs[i].b)
      \* the edges the finished graph really reports are the abstract ones: in stranded mode a lookup never falls back to the
      \* reverse complement (no strand-flipped edge), and after a pipeline that prunes no extension is left dangling
      EdgesOK(g, ee) == \A i \in 1..Len(ee) :
                          LET x == ee[i] IN
                          /\ {Tup3(x[3][j]) : j \in 1..Len(x[3])} = EdgeSetOf(K, st, g, x[1] + 1, x[2])
                          /\ (st => \A j \in 1..Len(x[3]) : ~x[3][j][3])
      NoDangling(g) == \A n \in 1..Len(g) : \A d \in {"L", "R"} : \A b \in BasesOf(g[n], d) :
                          Lookup(K, st, g, ExtK(TermK(K, g[n], d), d, b), d) # {}
      Y6 == \A i \in 1..Len(e.runs) :
              /\ EdgesOK(e.runs[i].a, e.runs[i].ea) /\ EdgesOK(e.runs[i].b, e.runs[i].eb)
              /\ (e.runs[i].pruned => (NoDangling(e.runs[i].a) /\ NoDangling(e.runs[i].b)))
  IN {c \in {"Y1", "Y2", "Y3", "Y4", "Y5", "Y6"} :
        ~(CASE c = "Y1" -> Y1 [] c = "Y2" -> Y2 [] c = "Y3" -> Y3 [] c = "Y4" -> Y4 [] c = "Y5" -> Y5 [] c = "Y6" -> Y6)}

\* ---------------------------------------------------------------- iter / iterall (C18)
\* abstract iterator over the k-mers of a node: state = number of items consumed
IterFails(e) ==
  IF e.panic # "" THEN {"PANIC"} ELSE
  LET K == e.K  ks == Kmers(e.s, K)  n == Len(ks)  NC == Len(e.calls)
      Adv(p, c) == IF c[1] = "next" THEN (IF p < n THEN p + 1 ELSE n)
                   ELSE (IF p + c[2] < n THEN p + c[2] + 1 ELSE n)
      Ret(p, c) == IF c[1] = "next" THEN (IF p < n THEN ks[p + 1] ELSE <<>>)
                   ELSE (IF p + c[2] < n THEN ks[p + c[2] + 1] ELSE <<>>)
      St[i \in 0..NC] == IF i = 0 THEN 0 ELSE Adv(St[i-1], e.calls[i])
      I1 == e.len0 = n /\ e.hint0 = <<n, n>>
      I2 == Len(e.outs) = NC /\ \A i \in 1..NC : e.outs[i] = Ret(St[i-1], e.calls[i])
      I3 == /\ ~e.capped
            /\ e.rest = [j \in 1..(n - St[NC]) |-> ks[St[NC] + j]]
            /\ \A j \in 1..Len(e.after_end) : e.after_end[j]
  IN {c \in {"I1", "I2", "I3"} : ~(CASE c = "I1" -> I1 [] c = "I2" -> I2 [] c = "I3" -> I3)}

IterallFails(e) ==
  IF e.panic # "" THEN {"PANIC"} ELSE
  LET K == e.K  nodes == e.nodes  NN == Len(nodes)
      Cat[i \in 0..NN] == IF i = 0 THEN <<>> ELSE Cat[i-1] \o Kmers(nodes[i].s, K)
      N == Len(Cat[NN])
      Distinct(q) == Cardinality(SetOf(q)) = Len(q) /\ \A j \in 1..Len(q) : q[j] >= 0 /\ q[j] < N
      I4 == e.all = Cat[NN] /\ e.lens = [i \in 1..NN |-> NK(K, nodes[i])]
      \* iter_nodes() and the Node accessors: every node once, in id order, with its own sequence, extensions and payload
      \* (beyond the listed properties; reported, never a verdict)
      I4x == /\ e.glen = NN /\ e.gempty = (NN = 0) /\ Len(e.via_iter) = NN
            /\ \A i \in 1..NN : LET v == e.via_iter[i] IN
                  /\ v.id = i - 1 /\ v.len = Len(nodes[i].s) /\ v.empty = (Len(nodes[i].s) = 0)
                  /\ v.s = nodes[i].s /\ v.l = nodes[i].l /\ v.r = nodes[i].r /\ v.d = nodes[i].d
      \* the graph's k-mers are pairwise distinct, so the iteration visits each exactly once and the MPHF is perfect
      I5 == /\ Len(e.slots) = N /\ Distinct(e.slots) /\ Len(e.pslots) = N /\ Distinct(e.pslots)
  IN {c \in {"I4", "I4x", "I5"} : ~(CASE c = "I4" -> I4 [] c = "I4x" -> I4x [] c = "I5" -> I5)}

\* ---------------------------------------------------------------- export (C20)
ExportFails(e) ==
  IF e.panic # "" THEN {"PANIC"} ELSE
  LET K == e.K  st == e.st  nodes == e.nodes  NN == Len(nodes)
      IsPal(n) == PalNode(K, st, nodes[n])
      \* an adjacency is an unordered pair of ports <<node, side>>; both sides of a palindromic single-k-mer node are one port
      Port(n, side) == <<n, IF IsPal(n) THEN "L" ELSE side>>
      PLess(p, q) == p[1] < q[1] \/ (p[1] = q[1] /\ p[2] = "L" /\ q[2] = "R")
      Norm(p, q) == IF PLess(q, p) THEN <<q, p>> ELSE <<p, q>>
      SpecLinks == UNION {UNION {{Norm(Port(u, d), Port(t[1], t[2])) : t \in EdgeSetOf(K, st, nodes, u, d)} : d \in {"L", "R"}} : u \in 1..NN}
      WellFormedLink(x) == x[1] >= 0 /\ x[1] < NN /\ x[3] >= 0 /\ x[3] < NN /\ x[2] \in {"+", "-"} /\ x[4] \in {"+", "-"}
      GfaLink(x) == Norm(Port(x[1] + 1, IF x[2] = "+" THEN "R" ELSE "L"), Port(x[3] + 1, IF x[4] = "+" THEN "L" ELSE "R"))
      Lines == 1..Len(e.links)
      Count(lk) == Cardinality({i \in Lines : WellFormedLink(e.links[i]) /\ GfaLink(e.links[i]) = lk})
      TouchPal(lk) == IsPal(lk[1][1]) \/ IsPal(lk[2][1])
      REdges == UNION {{<<u - 1, t[1] - 1, t[2]>> : t \in EdgeSetOf(K, st, nodes, u, "R")} : u \in 1..NN}
      JT(x) == <<x[1], x[2], x[3]>>
      JCount(tr) == Cardinality({i \in 1..Len(e.json_links) : JT(e.json_links[i]) = tr})
      G1 == /\ Len(e.segs) = NN /\ \A n \in 1..NN : e.segs[n][1] = n - 1 /\ e.segs[n][2] = Ascii(nodes[n].s)
            /\ e.gfa_other_lines = 0 /\ e.file_same /\ e.tags_same
            /\ Len(e.tags) = NN /\ \A n \in 1..NN : e.tags[n] = "LN:i:" \o ToString(Len(nodes[n].s))
      G2 == \A i \in Lines : WellFormedLink(e.links[i]) /\ GfaLink(e.links[i]) \in SpecLinks          \* no invented link
      G3 == \A lk \in SpecLinks : Count(lk) >= 1                                                       \* none lost
      G4 == (\A i \in Lines : WellFormedLink(e.links[i])) =>
               \A lk \in SpecLinks : Count(lk) <= 1 \/ (TouchPal(lk) /\ Count(lk) = 2)                 \* exactly once
      G5 == \A i \in Lines : e.links[i][5] = ToString(K - 1) \o "M"
      J1 == e.json_ok /\ e.json_rest_ok
      J2 == e.json_ok => /\ Len(e.json_nodes) = NN
                         /\ \A n \in 1..NN : /\ e.json_nodes[n][1] = n - 1 /\ e.json_nodes[n][2] = Len(nodes[n].s)
                                             /\ (Len(nodes[n].s) < 256 => e.json_nodes[n][3] = Ascii(nodes[n].s))
                                             /\ e.json_nodes[n][4] = nodes[n].d
      J3 == e.json_ok => /\ \A tr \in REdges : JCount(tr) = 1
                         /\ \A i \in 1..Len(e.json_links) : JT(e.json_links[i]) \in REdges
      \* DOT export (beyond the listed properties; reported, never a verdict): every node once with its length, one arrow per
      \* reported edge of either side - into the node for a left edge, out of it for a right edge - coloured by arrival side
      Col(side) == IF side = "L" THEN "blue" ELSE "red"
      DotWant == UNION {{<<t[1] - 1, u - 1, Col(t[2])>> : t \in EdgeSetOf(K, st, nodes, u, "L")} \cup
                        {<<u - 1, t[1] - 1, Col(t[2])>> : t \in EdgeSetOf(K, st, nodes, u, "R")} : u \in 1..NN}
      DotN(u) == Cardinality(EdgeSetOf(K, st, nodes, u, "L")) + Cardinality(EdgeSetOf(K, st, nodes, u, "R"))
      DotCount == SumOver(DotN, 1..NN)
      D1x == /\ e.dot_other_lines = 0 /\ Len(e.dot_nodes) = NN
             /\ \A n \in 1..NN : e.dot_nodes[n] = <<n - 1, Len(nodes[n].s)>>
             /\ {<<e.dot_edges[i][1], e.dot_edges[i][2], e.dot_edges[i][3]>> : i \in 1..Len(e.dot_edges)} = DotWant
             /\ Len(e.dot_edges) = DotCount
  IN {c \in {"G1", "G2", "G3", "G4", "G5", "J1", "J2", "J3", "D1x"} :
        ~(CASE c = "G1" -> G1 [] c = "G2" -> G2 [] c = "G3" -> G3 [] c = "G4" -> G4 [] c = "G5" -> G5
            [] c = "J1" -> J1 [] c = "J2" -> J2 [] c = "J3" -> J3 [] c = "D1x" -> D1x)}

SerdeFails(e) ==
  IF e.panic # "" THEN {"PANIC"} ELSE
  LET Same(i) == e.items[i].before = e.items[i].after /\ e.items[i].eq /\ e.items[i].rc_eq
      Ext(i) == e.items[i].ty \in {"combine", "combine-mixed"}          \* BaseGraph::combine: beyond the listed properties
  IN (IF \A i \in 1..Len(e.items) : Ext(i) \/ Same(i) THEN {} ELSE {"Z1"}) \cup
     (IF \A i \in 1..Len(e.items) : ~Ext(i) \/ Same(i) THEN {} ELSE {"Z2x"})

\* ---------------------------------------------------------------- index (C19)
IndexFails(e) ==
  IF e.panic # "" THEN {"PANIC"} ELSE
  LET K == e.K  st == e.st
      X1 == \A i \in 1..Len(e.runs) : e.runs[i].digest = e.serial
      \* for graphs too big to embed, the harness logs which node (if any) starts / ends with the probe k-mer and with its
      \* reverse complement (ff, ll, fr, lr; -1 = none); the answer must be the abstract lookup over these facts
      Want(pr) == IF e.embed THEN Lookup(K, st, e.nodes, pr.k, pr.dir)
                  ELSE IF pr.dir = "R"
                       THEN (IF pr.ff >= 0 THEN {<<pr.ff + 1, "L", FALSE>>}
                             ELSE IF ~st /\ pr.lr >= 0 THEN {<<pr.lr + 1, "R", TRUE>>} ELSE {})
                       ELSE (IF pr.ll >= 0 THEN {<<pr.ll + 1, "R", FALSE>>}
                             ELSE IF ~st /\ pr.fr >= 0 THEN {<<pr.fr + 1, "L", TRUE>>} ELSE {})
      X2 == \A i \in 1..Len(e.sample) :
              LET pr == e.sample[i] IN IF pr.ans = <<>> THEN Want(pr) = {} ELSE Want(pr) = {Tup3(pr.ans)}
      \* a k-mer is found as a node end exactly when that node starts / ends with it
      X3 == \A i \in 1..Len(e.sample) :
              LET pr == e.sample[i] IN
              pr.ans = <<>> \/
                (IF pr.ans[3] THEN (IF pr.dir = "R" THEN pr.last = RC(pr.k) ELSE pr.first = RC(pr.k))
                 ELSE (IF pr.dir = "R" THEN pr.first = pr.k ELSE pr.last = pr.k))
  IN {c \in {"X1", "X2", "X3"} : ~(CASE c = "X1" -> X1 [] c = "X2" -> X2 [] c = "X3" -> X3)}

\* ---------------------------------------------------------------- life-cycle histories (C01 C02 C03 C09)
\* One real graph object is carried from step to step; the abstract state lc = [K, st, mode, T, G] carries the table it
\* was built from and the graph it currently is.  Every step is judged against the CARRIED state: `cur` (the projection
\* of the real object just before the call) must be the graph the previous step left behind (frame condition STATE).
TableOfRows(tab) ==
  LET keys == {tab[i].k : i \in 1..Len(tab)}
      Idx(k) == CHOOSE i \in 1..Len(tab) : tab[i].k = k
  IN [k \in keys |-> [l |-> SetOf(tab[Idx(k)].l), r |-> SetOf(tab[Idx(k)].r), d |-> tab[Idx(k)].d]]

LcFails(e) ==
  IF e.panic # "" THEN {"PANIC"} ELSE
  LET K == lc.K  st == lc.st  G == lc.G IN
  CASE e.op = "lc_compress" ->
         IF ~NodesOK(e.nodes) THEN {"V1"} ELSE GraphFails(K, st, lc.mode, lc.T, e.nodes)
    [] e.op = "lc_query" ->
         LET E1 == \A i \in 1..Len(e.probes) :
                     LET pr == e.probes[i]  want == Lookup(K, st, G, pr.k, pr.dir) IN
                     IF pr.ans = <<>> THEN want = {} ELSE want = {Tup3(pr.ans)}
             E2 == \A i \in 1..Len(e.edges) :
                     LET x == e.edges[i] IN {Tup3(x.e[j]) : j \in 1..Len(x.e)} = EdgeSetOf(K, st, G, x.n + 1, x.dir)
         IN (IF e.cur = G THEN {} ELSE {"STATE"}) \cup
            (IF e.cur # G THEN {} ELSE {c \in {"E1", "E2"} : ~(CASE c = "E1" -> E1 [] c = "E2" -> E2)})
    [] e.op = "lc_fixexts" ->
         LET valid == {v + 1 : v \in SetOf(e.valid)}
             OKT(t) == ~e.use_valid \/ t[1] \in valid
             Keep(n, d) == {b \in BasesOf(G[n], d) : \E t \in Lookup(K, st, G, ExtK(TermK(K, G[n], d), d, b), d) : OKT(t)}
             P3 == /\ Len(e.after) = Len(G)
                   /\ \A n \in 1..Len(G) : /\ e.after[n].s = G[n].s /\ e.after[n].d = G[n].d
                                             /\ SetOf(e.after[n].l) = Keep(n, "L") /\ SetOf(e.after[n].r) = Keep(n, "R")
         IN (IF e.cur = G THEN {} ELSE {"STATE"}) \cup (IF e.cur # G \/ P3 THEN {} ELSE {"P3"})
    [] e.op = "lc_recompress" ->
         LET cens == {c + 1 : c \in SetOf(e.censor)}
             valid == (1..Len(G)) \ cens
         IN (IF e.cur = G THEN {} ELSE {"STATE"}) \cup
            (IF e.cur # G \/ ~WellFormedGraph(K, st, G) \/ ~SymmetricGraph(K, st, G) THEN {}
             ELSE IF ~NodesOK(e.out) THEN {"V1"}
             ELSE LET T0 == TableOfGraph(K, st, lc.mode, G)
                      surv == UNION {KmersOfNode(K, st, G[n]) : n \in valid}
                  IN GraphFails(K, st, lc.mode, Prune(st, T0, surv), e.out) \cup (IF e.dangling = 0 THEN {} ELSE {"DANGLING"}))
    [] OTHER -> {"UNKNOWN-OP"}

LcAfter(e) ==
  CASE e.op = "begin" -> [K |-> e.K, st |-> e.st, mode |-> e.mode, T |-> TableOfRows(e.table), G |-> <<>>]
    [] e.op = "lc_compress" /\ e.panic = "" -> [lc EXCEPT !.G = e.nodes]
    [] e.op = "lc_fixexts" /\ e.panic = "" -> [lc EXCEPT !.G = e.after]
    [] e.op = "lc_recompress" /\ e.panic = "" -> [lc EXCEPT !.G = e.out]
    [] OTHER -> lc

\* ---------------------------------------------------------------- machine
Fails(e) ==
  CASE e.op = "compress"   -> CompressFails(e)
    [] e.op = "recompress" -> RecompressFails(e)
    [] e.op = "graphq"     -> GraphqFails(e)
    [] e.op = "prune"      -> PruneFails(e)
    [] e.op = "fixexts"    -> FixextsFails(e)
    [] e.op = "pipeline"   -> PipelineFails(e)
    [] e.op = "strand"     -> StrandFails(e)
    [] e.op = "iter"       -> IterFails(e)
    [] e.op = "iterall"    -> IterallFails(e)
    [] e.op = "export"     -> ExportFails(e)
    [] e.op = "serde"      -> SerdeFails(e)
    [] e.op = "index"      -> IndexFails(e)
    [] e.op = "begin"      -> {}
    [] e.op \in {"lc_compress", "lc_query", "lc_fixexts", "lc_recompress"} -> LcFails(e)
    [] e.op = "timeout"    -> {"TIMEOUT"}
    [] OTHER -> {"UNKNOWN-OP"}

Init == l = 1 /\ lc = [K |-> 0, st |-> FALSE, mode |-> "sum", T |-> <<>>, G |-> <<>>]
Next == /\ l <= Len(Rec)
        /\ l' = l + 1
        /\ LET f == Fails(Rec[l]) IN
             IF f = {} THEN TRUE ELSE PrintT(<<"FAIL", l, Rec[l].case, Rec[l].op, f>>)
        /\ lc' = LcAfter(Rec[l])
Spec == Init /\ [][Next]_<<l, lc>>
\* a silently truncated run must not count as a pass
Complete == PrintT(<<"DONE", TLCGet("stats").diameter - 1, Len(Rec)>>)
=============================================================================
