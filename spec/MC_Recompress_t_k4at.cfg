SPECIFICATION Spec
CONSTANTS
  K = 4
  Stranded = FALSE
  Mode = "sum"
  Inputs <- In_K4_AT_10
  Rounds = 2
INVARIANTS Valid NoPanic NoDangling
CHECK_DEADLOCK FALSE
