----------------------------- MODULE SmallModels -----------------------------
(* Small exhaustive models of the remaining implementation mechanisms; each is  *)
(* selected by the constant Which and explored by its own configuration.        *)
(*   "slice"    DnaStringSlice coordinate arithmetic (start, length, is_rc):    *)
(*              get / slice / rc / get_kmer remaps (dna_string.rs:565-695)      *)
(*   "extract"  block-walk get_kmer (dna_string.rs:123-153, vmer.rs:137-167)    *)
(*              and the rolling KmerIter / KmerExtsIter (lib.rs:769-842)        *)
(*   "ascii"    chunked ASCII ingestion: 32-byte blocks + scalar tail must      *)
(*              equal the point-wise map (dna_string.rs:224-250)                *)
(*   "exts"     the 8-bit Exts encoding and its bit tricks (lib.rs:569-749)     *)
(*   "unique"   V1-V3 pin the partition: any two valid node lists over the same *)
(*              table have the same blocks (lemma used by C02 C04 C06 C09)      *)
(*   "strand"   the reference table is strand-symmetric when unstranded and     *)
(*              strand-separating when stranded (C06)                           *)
EXTENDS Dbg, TLC, Integers

CONSTANTS Which, K, B, MaxLen, Alpha
VARIABLES st, pc
vars == <<st, pc>>
Strings(A, lo, hi) == UNION {[1..n -> A] : n \in lo..hi}

\* ================================================================ slice
\* a view is [start, length, rc] over base string st.base; Abs = the substring, reverse-complemented when flagged
VAbs(base, v) == LET sub == SubSeq(base, v.start + 1, v.start + v.length) IN IF v.rc THEN RC(sub) ELSE sub
VGet(base, v, i) == IF ~v.rc THEN base[i + v.start + 1] ELSE 3 - base[v.start + v.length - 1 - i + 1]
VSlice(v, a, b) == IF ~v.rc THEN [start |-> v.start + a, length |-> b - a, rc |-> v.rc]
                   ELSE [start |-> v.start + v.length - b, length |-> b - a, rc |-> v.rc]
VRc(v) == [v EXCEPT !.rc = ~v.rc]
VKmer(base, v, pos, k) == IF ~v.rc THEN Sub(base, v.start + pos + 1, k)
                          ELSE RC(Sub(base, v.start + v.length - k - pos + 1, k))
SliceInit == \E base \in Strings(Alpha, 0, MaxLen) :
               st = [base |-> base, v |-> [start |-> 0, length |-> Len(base), rc |-> FALSE], depth |-> 0]
SliceCheck(base, v) ==
  /\ Assert(\A i \in 0..(v.length - 1) : VGet(base, v, i) = VAbs(base, v)[i + 1], <<"get", base, v>>)
  /\ Assert(\A k \in 1..v.length : \A p \in 0..(v.length - k) : VKmer(base, v, p, k) = Sub(VAbs(base, v), p + 1, k), <<"get_kmer", base, v>>)
SliceNext ==
  /\ st.depth < 3
  /\ \/ \E a \in 0..st.v.length : \E b \in a..st.v.length :
          LET nv == VSlice(st.v, a, b) IN
          /\ Assert(VAbs(st.base, nv) = SubSeq(VAbs(st.base, st.v), a + 1, b), <<"slice", st, a, b>>)
          /\ SliceCheck(st.base, nv)
          /\ st' = [st EXCEPT !.v = nv, !.depth = @ + 1]
     \/ LET nv == VRc(st.v) IN
          /\ Assert(VAbs(st.base, nv) = RC(VAbs(st.base, st.v)), <<"rc", st>>)
          /\ SliceCheck(st.base, nv)
          /\ st' = [st EXCEPT !.v = nv, !.depth = @ + 1]
  /\ UNCHANGED pc

\* ================================================================ extract
\* block-walk get_kmer: at most B - block_pos bases from the first block, then whole blocks; each piece is shifted to
\* the top of a value and written with set_slice_mut at kmer_pos
BlockOf(s, j) == [i \in 1..B |-> IF (j - 1) * B + i <= Len(s) THEN s[(j - 1) * B + i] ELSE 0]
ShiftUp(x, n) == [i \in 1..B |-> IF i + n <= B THEN x[i + n] ELSE 0]
RECURSIVE Walk(_, _, _, _, _)
Walk(s, k, block, bpos, acc) ==
  IF Len(acc) >= k THEN acc
  ELSE LET nb == Min2(k - Len(acc), B - bpos)
           val == ShiftUp(BlockOf(s, block), bpos)
       IN Walk(s, k, block + 1, 0, acc \o [i \in 1..nb |-> val[i]])
GetKmer(s, pos, k) == Walk(s, k, (pos \div B) + 1, pos % B, <<>>)
\* rolling iterator: (pos, kmer) state machine; yields while pos <= len
RECURSIVE Roll(_, _, _, _, _)
Roll(s, k, pos, km, acc) ==
  IF pos > Len(s) THEN acc
  ELSE Roll(s, k, pos + 1, IF pos < Len(s) THEN Succ(km, s[pos + 1]) ELSE km, Append(acc, km))
IterKmers(s, k) == IF Len(s) >= k THEN Roll(s, k, k, GetKmer(s, 0, k), <<>>) ELSE <<>>
\* KmerExtsIter: left = caller's exts at the first k-mer else the base before; right = next base or caller's exts at the end
RECURSIVE RollE(_, _, _, _, _)
RollE(s, k, pos, ce, acc) ==
  IF pos > Len(s) THEN acc
  ELSE LET le == IF pos = k THEN ce.l ELSE {s[pos - k]}
           re == IF pos < Len(s) THEN {s[pos + 1]} ELSE ce.r
       IN RollE(s, k, pos + 1, ce, Append(acc, [l |-> le, r |-> re]))
IterExts(s, k, ce) == IF Len(s) >= k THEN RollE(s, k, k, ce, <<>>) ELSE <<>>
ExtractInit == \E s \in Strings(Alpha, 0, MaxLen) : st = [s |-> s]
ExtractOK ==
  \A k \in 1..K :
    /\ \A p \in 0..(Len(st.s) - k) : GetKmer(st.s, p, k) = Sub(st.s, p + 1, k)
    /\ IterKmers(st.s, k) = Kmers(st.s, k)
    /\ LET ce == [l |-> {1}, r |-> {2, 3}]  E == IterExts(st.s, k, ce)  n == NKmers(st.s, k) IN
         /\ Len(E) = n
         /\ \A j \in 1..n : /\ E[j].l = (IF j = 1 THEN ce.l ELSE {st.s[j - 1]})
                            /\ E[j].r = (IF j = n THEN ce.r ELSE {st.s[j + k]})

\* ================================================================ ascii
\* bytes are abstracted to classes: 0..3 = a valid letter of that base, 4 = any other byte
ByteMap(c) == IF c = 4 THEN 0 ELSE c
RECURSIVE Chunked(_, _)
Chunked(bytes, acc) ==      \* from_acgt_bytes: chunks(B): full chunk -> one packed block; short chunk -> extend()
  IF bytes = <<>> THEN acc
  ELSE LET n == Min2(B, Len(bytes)) IN
       Chunked(SubSeq(bytes, n + 1, Len(bytes)), acc \o [i \in 1..n |-> ByteMap(bytes[i])])
RECURSIVE StrictRuns(_, _, _)
StrictRuns(bytes, cur, acc) ==      \* from_dna_only_string
  IF bytes = <<>> THEN (IF cur = <<>> THEN acc ELSE Append(acc, cur))
  ELSE IF Head(bytes) = 4 THEN StrictRuns(Tail(bytes), <<>>, IF cur = <<>> THEN acc ELSE Append(acc, cur))
  ELSE StrictRuns(Tail(bytes), Append(cur, Head(bytes)), acc)
AsciiInit == \E s \in Strings(0..4, 0, MaxLen) : st = [s |-> s]
AsciiOK ==
  LET s == st.s  runs == StrictRuns(s, <<>>, <<>>) IN
  /\ Chunked(s, <<>>) = [i \in 1..Len(s) |-> ByteMap(s[i])]
  /\ \A i \in 1..Len(runs) : runs[i] # <<>> /\ \A j \in 1..Len(runs[i]) : runs[i][j] \in 0..3
  \* maximal: concatenating the runs gives the valid letters in order, and the number of runs = number of run starts
  /\ LET Cat[i \in 0..Len(runs)] == IF i = 0 THEN <<>> ELSE Cat[i-1] \o runs[i] IN
       Cat[Len(runs)] = SelectSeq(s, LAMBDA c : c # 4)
  /\ Len(runs) = Cardinality({i \in 1..Len(s) : s[i] # 4 /\ (i = 1 \/ s[i - 1] = 4)})

\* ================================================================ exts (8-bit encoding)
\* bit i of the low nibble = left extension with base i, bit 4+i = right extension with base i
BitAt(v, i) == (v \div (2 ^ i)) % 2
DecodeE(v) == [l |-> {b \in 0..3 : BitAt(v, b) = 1}, r |-> {b \in 0..3 : BitAt(v, 4 + b) = 1}]
\* complement: swap adjacent bits, then swap bit pairs (within each nibble): bit i -> bit 3-i
SwapBits(v) == LET F[i \in 0..8] == IF i = 0 THEN 0 ELSE F[i-1] + BitAt(v, i - 1) * 2 ^ (IF (i - 1) % 2 = 0 THEN i ELSE i - 2) IN F[8]
SwapPairs(v) == LET F[i \in 0..8] == IF i = 0 THEN 0 ELSE F[i-1] + BitAt(v, i - 1) * 2 ^ (IF ((i - 1) \div 2) % 2 = 0 THEN i + 1 ELSE i - 3) IN F[8]
ComplementBits(v) == SwapPairs(SwapBits(v))
ReverseBits(v) == (v % 16) * 16 + (v \div 16)
ExtsInit == \E v \in 0..255 : st = [v |-> v]
ExtsOK ==
  LET e == DecodeE(st.v) IN
  /\ DecodeE(ComplementBits(st.v)) = [l |-> CompS(e.l), r |-> CompS(e.r)]
  /\ DecodeE(ReverseBits(st.v)) = [l |-> e.r, r |-> e.l]
  /\ DecodeE(ComplementBits(ReverseBits(st.v))) = FlipE(e)            \* Exts::rc = reverse().complement()
  /\ FlipE(FlipE(e)) = e

\* ================================================================ unique (partition lemma)
\* all node lists over a read's k-mer set in which every node is a run of consecutive read positions: enumerate the
\* cuts; two cut sets that are both valid (V1-V3) must give the same blocks.  (Node order / orientation / cycle cut free.)
UniqueInit == \E s \in Strings(Alpha, K, MaxLen) : \E sd \in BOOLEAN : st = [s |-> s, stranded |-> sd]
NodesOfCuts(s, cuts) ==      \* cuts \subseteq 1..(NKmers-1): a cut after k-mer position i
  LET n == NKmers(s, K)
      starts == SortSet({1} \cup {c + 1 : c \in cuts})
      EndOf(i) == IF i < Len(starts) THEN starts[i + 1] - 1 ELSE n
  IN [i \in 1..Len(starts) |-> [s |-> SubSeq(s, starts[i], EndOf(i) + K - 1), l |-> <<>>, r |-> <<>>, d |-> <<0>>]]
UniqueOK ==
  LET s == st.s  sd == st.stranded  n == NKmers(s, K)
      T == RefTable(K, sd, 1, <<s>>)
      ValidCuts == {c \in SUBSET (1..(n - 1)) :
                      GraphFails(K, sd, "sum", T, NodesOfCuts(s, c)) \cap {"V1", "V2b", "V3"} = {}}
  IN \A c1 \in ValidCuts : \A c2 \in ValidCuts :
       {KmersOfNode(K, sd, NodesOfCuts(s, c1)[i]) : i \in 1..Len(NodesOfCuts(s, c1))}
     = {KmersOfNode(K, sd, NodesOfCuts(s, c2)[i]) : i \in 1..Len(NodesOfCuts(s, c2))}

\* ================================================================ strand
StrandInit == \E s \in Strings(Alpha, K, MaxLen) : \E t \in Strings(Alpha, K, MaxLen) : st = [a |-> s, b |-> t]
StrandOK ==
  LET R == <<st.a, st.b>>
      Variants == {<<st.a, st.b>>, <<RC(st.a), st.b>>, <<st.a, RC(st.b)>>, <<RC(st.a), RC(st.b)>>}
      T0 == RefTable(K, FALSE, 1, R)
      TS == RefTable(K, TRUE, 1, R)
  IN /\ \A V \in Variants :
          LET T1 == RefTable(K, FALSE, 1, V) IN
          /\ DOMAIN T1 = DOMAIN T0
          /\ \A k \in DOMAIN T0 : /\ k = Canon(k) /\ T1[k].d = T0[k].d
                                  /\ (Pal(k) \/ (T1[k].l = T0[k].l /\ T1[k].r = T0[k].r))
                                  /\ (Pal(k) => Sym([l |-> T1[k].l, r |-> T1[k].r]) = Sym([l |-> T0[k].l, r |-> T0[k].r]))
     \* stranded: exactly the forward k-mers, and an extension only where the read has that neighbour
     /\ DOMAIN TS = UNION {{Sub(R[i], j, K) : j \in 1..NKmers(R[i], K)} : i \in 1..2}
     /\ \A k \in DOMAIN TS : \A b \in TS[k].r : \E i \in 1..2 : \E j \in 1..(Len(R[i]) - K) : Sub(R[i], j, K + 1) = k \o <<b>>

Init == pc = "check" /\ CASE Which = "slice" -> SliceInit [] Which = "extract" -> ExtractInit [] Which = "ascii" -> AsciiInit
                          [] Which = "exts" -> ExtsInit [] Which = "unique" -> UniqueInit [] Which = "strand" -> StrandInit
Next == IF Which = "slice" THEN SliceNext ELSE (pc = "check" /\ pc' = "done" /\ UNCHANGED st)
Spec == Init /\ [][Next]_vars
OK == CASE Which = "extract" -> ExtractOK [] Which = "ascii" -> AsciiOK [] Which = "exts" -> ExtsOK
        [] Which = "unique" -> UniqueOK [] Which = "strand" -> StrandOK [] OTHER -> TRUE
=============================================================================
