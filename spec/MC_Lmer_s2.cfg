SPECIFICATION Spec
CONSTANTS
  S = 2
  B = 4
  LB = 2
  RunAlpha = {0, 3}
  FullMask = TRUE
INVARIANT Clean
CHECK_DEADLOCK FALSE
