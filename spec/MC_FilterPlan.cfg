SPECIFICATION Spec
CONSTANTS
  MaxSlices = 300
  Buckets = {0, 1, 2, 15, 16, 17, 63, 64, 85, 86, 127, 128, 129, 170, 171, 200, 254, 255}
INVARIANTS Tiles SameAsOnePass
CHECK_DEADLOCK FALSE
