SPECIFICATION Spec
CONSTANTS
  K = 2
  Stranded = FALSE
  Mode = "sum"
  Thr = 1
  Inputs <- In_K2_6
  Dump = TRUE
INVARIANTS Valid NoPanic AvailDisjoint LinksOK ExportOK Emit
PROPERTY AvailShrinks
CHECK_DEADLOCK FALSE
