SPECIFICATION Spec
CONSTANTS
  K = 3
  Stranded = FALSE
  Inputs <- In_K3_6
  Holes = TRUE
  Beam = 3
  Fixed = TRUE
INVARIANTS TypeOK NoPanic WalksOK RepeatsOK ScoresOK Sorted
CHECK_DEADLOCK FALSE
