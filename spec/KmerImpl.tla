------------------------------ MODULE KmerImpl ------------------------------
(* Lane-level model of IntKmer / VarIntKmer (kmer.rs).  Storage is W lanes of  *)
(* two bits, lane 1 most significant; the K used lanes are right-aligned, the  *)
(* U = W - K unused lanes sit on top and must stay zero, because the derived   *)
(* Eq / Ord / Hash of the real types compare the whole integer.                *)
(* (W,K) = (4,2),(4,3),(4,4) ARE Kmer2/Kmer3/Kmer4; (8,5),(8,6),(8,8) are      *)
(* Kmer5/6/8.  Two registers; every operation asserts, on every generated      *)
(* transition, that its abstraction is the string operation of the abstract    *)
(* specification (Kmer level of TraceData), and prints the transition for      *)
(* replay on the real types.                                                   *)
EXTENDS Dna, TLC, Json

CONSTANTS W, K, Dump, MaxRun
U == W - K
Store == [1..W -> Base]
VARIABLES r1, r2

Abs(st) == [i \in 1..K |-> st[U + i]]
TopZero(st) == \A i \in 1..U : st[i] = 0
ShR(st, n) == [i \in 1..W |-> IF i <= n THEN 0 ELSE st[i - n]]
ShL(st, n) == [i \in 1..W |-> IF i + n <= W THEN st[i + n] ELSE 0]
ClearTop(st) == [i \in 1..W |-> IF i <= U THEN 0 ELSE st[i]]              \* & !top_mask(0)
SetLane(st, p, v) == [st EXCEPT ![U + 1 + p] = v]                          \* set_mut(p, v)
IExtL(st, v) == SetLane(ShR(st, 1), 0, v)                                  \* storage >> 2, set_mut(0, v)
IExtR(st, v) == SetLane(ClearTop(ShL(st, 1)), K - 1, v)                    \* storage << 2 & !top_mask(0), set_mut(K-1, v)
IRC(st) == ShR([i \in 1..W |-> 3 - st[W + 1 - i]], U)                      \* !reverse_by_twos >> 2U
Masked(p, n, i) == i <= U + p \/ i > U + p + n                             \* top_mask(p) | bottom_mask(K-p-n)
\* set_slice_mut: value = W lanes, run in the top n lanes, anything below; slide down by p + U lanes
ISetSlice(st, p, n, val) == LET slide == ShR(val, p + U) IN [i \in 1..W |-> IF Masked(p, n, i) THEN st[i] ELSE slide[i]]
IFromRank(digits) == [i \in 1..W |-> IF i <= U THEN 0 ELSE digits[i - U]]
StoreLess(a, b) == LexLess(a, b)                                           \* integer order = lane order

\* packed values: a run of n bases on top, uniform junk (all 0 or all 3) below
ValueOf(run, junk) == [i \in 1..W |-> IF i <= Len(run) THEN run[i] ELSE junk]
Runs(n) == [1..n -> {0, 3}] \cup {[i \in 1..n |-> IF i % 2 = 1 THEN 1 ELSE 2]}

Ops(r) ==
     {[op |-> "rc", a |-> <<>>, post |-> IRC(r), abs |-> RC(Abs(r))]}
  \cup {[op |-> "extend_left", a |-> <<v>>, post |-> IExtL(r, v), abs |-> Pred(Abs(r), v)] : v \in Base}
  \cup {[op |-> "extend_right", a |-> <<v>>, post |-> IExtR(r, v), abs |-> Succ(Abs(r), v)] : v \in Base}
  \cup {[op |-> "set", a |-> <<p, v>>, post |-> SetLane(r, p, v), abs |-> [Abs(r) EXCEPT ![p + 1] = v]] : p \in 0..(K-1), v \in Base}
  \cup UNION {UNION {{[op |-> "set_slice", a |-> <<p, run, j>>, post |-> ISetSlice(r, p, n, ValueOf(run, j)),
                       abs |-> [i \in 1..K |-> IF i > p /\ i <= p + n THEN run[i - p] ELSE Abs(r)[i]]] :
                        run \in Runs(n), j \in {0, 3}} : n \in 1..Min2(MaxRun, K - p)} : p \in 0..(K-1)}
  \cup {[op |-> "min_rc", a |-> <<>>, post |-> (IF StoreLess(r, IRC(r)) THEN r ELSE IRC(r)), abs |-> Canon(Abs(r))]}

Check(r, o) == /\ Assert(Abs(o.post) = o.abs, <<"refinement broken", r, o>>)
               /\ Assert(TopZero(o.post), <<"unused lanes dirty", r, o>>)
               /\ (Dump => PrintT(ToJson([tag |-> "REPLAY", K |-> K, pre |-> Abs(r), op |-> o.op, args |-> o.a, post |-> o.abs])))
Zero == [i \in 1..W |-> 0]
Init == r1 = Zero /\ r2 = Zero
Next == \/ \E o \in Ops(r1) : Check(r1, o) /\ r1' = o.post /\ r2' = r2
        \/ \E o \in Ops(r2) : Check(r2, o) /\ r2' = o.post /\ r1' = r1
Spec == Init /\ [][Next]_<<r1, r2>>

\* the theorem the derived Eq / Ord / Hash rest on
Inv == /\ TopZero(r1) /\ TopZero(r2)
       /\ (r1 = r2) <=> (Abs(r1) = Abs(r2))
       /\ StoreLess(r1, r2) <=> LexLess(Abs(r1), Abs(r2))
\* one register only (for the larger types)
Next1 == \E o \in Ops(r1) : Check(r1, o) /\ r1' = o.post /\ r2' = r2
Spec1 == Init /\ [][Next1]_<<r1, r2>>
=============================================================================
