--------------------------- MODULE RecompressImpl ---------------------------
(* Implementation-shaped model of CompressFromGraph / compress_graph          *)
(* (compression.rs:100-335) with DebruijnGraph::find_link and fix_exts        *)
(* (graph.rs:252-377): available_nodes, incoming side / rc tracking,          *)
(* sequence_of_path, node censoring.  Round 1 re-compresses the one-k-mer-    *)
(* per-node graph of every read set in scope under EVERY censor subset;       *)
(* round 2 feeds the output back (a compressed graph) with at most one        *)
(* censored node.  Each round must satisfy the declarative Dbg validity       *)
(* against the pruned table the input graph denotes.                          *)
EXTENDS Dbg, TLC, SequencesExt

CONSTANTS K, Stranded, Mode, Inputs, Rounds
VARIABLES inp, G, T, avail, out, pc, seed, cur, dir, path, lpath, lext, round
vars == <<inp, G, T, avail, out, pc, seed, cur, dir, path, lpath, lext, round>>

\* fix_exts (graph.rs:337-377)
FixExts(g, valid) ==
  [n \in 1..Len(g) |->
     [s |-> g[n].s, d |-> g[n].d,
      l |-> SortSet({b \in SetOf(g[n].l) : \E t \in Lookup(K, Stranded, g, Pred(FirstK(K, g[n]), b), "L") : t[1] \in valid}),
      r |-> SortSet({b \in SetOf(g[n].r) : \E t \in Lookup(K, Stranded, g, Succ(LastK(K, g[n]), b), "R") : t[1] \in valid})]]

JoinN(d1, d2) == Mode # "colour" \/ d1 = d2

\* try_extend_node (compression.rs:115-205)
Try(n, d) ==
  LET side == BasesOf(G[n], d) IN
  IF Cardinality(side) # 1 \/ PalNode(K, Stranded, G[n]) THEN [kind |-> "T", e |-> side]
  ELSE LET b  == CHOOSE x \in side : TRUE
           nk == ExtK(TermK(K, G[n], d), d, b)
           lk == Lookup(K, Stranded, G, nk, d)
       IN IF lk = {} THEN [kind |-> "PANIC", e |-> side]                   \* panic!("No kmer")
          ELSE LET t == CHOOSE x \in lk : TRUE  m == t[1]  inc == t[2] IN
               IF m \notin avail \/ (~Stranded /\ Pal(nk)) \/ ~JoinN(G[n].d, G[m].d)
               THEN [kind |-> "T", e |-> side]
               ELSE LET cnt == Cardinality(BasesOf(G[m], inc)) IN
                    IF cnt = 0 THEN [kind |-> "PANIC", e |-> side]         \* panic!("unreachable")
                    ELSE IF cnt = 1 THEN [kind |-> "U", n |-> m, out |-> Opp(inc)]
                    ELSE [kind |-> "T", e |-> side]

OnePerKmer(R) == LET ks == SetToSeq(DOMAIN R) IN
                 [i \in 1..Len(ks) |-> [s |-> ks[i], l |-> SortSet(R[ks[i]].l), r |-> SortSet(R[ks[i]].r), d |-> R[ks[i]].d]]

Start(g, cens) ==
  LET valid == (1..Len(g)) \ cens
      surv == UNION {KmersOfNode(K, Stranded, g[n]) : n \in valid}
  IN /\ G' = FixExts(g, valid) /\ avail' = valid
     /\ T' = Prune(Stranded, TableOfGraph(K, Stranded, Mode, g), surv)
     /\ out' = <<>> /\ pc' = "pick" /\ seed' = 0 /\ cur' = 0 /\ dir' = "L"
     /\ path' = <<>> /\ lpath' = <<>> /\ lext' = {}

Init == /\ inp \in Inputs
        /\ G = <<>> /\ avail = {} /\ T = <<>>
        /\ out = <<>> /\ pc = "init" /\ seed = 0 /\ cur = 0 /\ dir = "L"
        /\ path = <<>> /\ lpath = <<>> /\ lext = {} /\ round = 1

\* build the one-k-mer-per-node graph of the input and choose ANY censor subset
Begin == /\ pc = "init"
         /\ LET g == OnePerKmer(RefTableM(K, Stranded, 1, inp, Mode)) IN
              \E cens \in SUBSET (1..Len(g)) : Start(g, cens)
         /\ UNCHANGED <<inp, round>>

\* nodes are seeded in id order (compression.rs:322-327)
Pick == /\ pc = "pick" /\ avail # {}
        /\ LET s == CHOOSE x \in avail : \A y \in avail : x <= y IN
             seed' = s /\ cur' = s /\ avail' = avail \ {s}
        /\ dir' = "L" /\ path' = <<>> /\ pc' = "left"
        /\ UNCHANGED <<inp, G, T, out, lpath, lext, round>>

Step(phase) ==
        /\ pc = phase
        /\ LET r == Try(cur, dir) IN
             /\ r.kind = "U"
             /\ path' = Append(path, <<r.n, Opp(r.out)>>) /\ avail' = avail \ {r.n} /\ cur' = r.n /\ dir' = r.out
        /\ UNCHANGED <<inp, G, T, out, pc, seed, lpath, lext, round>>

EndLeft == /\ pc = "left"
           /\ LET r == Try(cur, dir) IN
                /\ r.kind = "T"
                /\ lext' = (IF path # <<>> /\ path[Len(path)][2] = "L" THEN CompS(r.e) ELSE r.e)
           /\ lpath' = path /\ path' = <<>> /\ cur' = seed /\ dir' = "R" /\ pc' = "right"
           /\ UNCHANGED <<inp, G, T, avail, out, seed, round>>

Oriented(e) == IF e[2] = "L" THEN G[e[1]].s ELSE RC(G[e[1]].s)
\* sequence_of_path (graph.rs:471-491)
Spell(p) == LET F[i \in 1..Len(p)] ==
                  IF i = 1 THEN Oriented(p[1])
                  ELSE LET nx == Oriented(p[i]) IN F[i-1] \o SubSeq(nx, K, Len(nx))
            IN F[Len(p)]
SumD(p) == LET F[i \in 0..Len(p)] == IF i = 0 THEN 0 ELSE F[i-1] + G[p[i][1]].d[1] IN F[Len(p)]

EndRight == /\ pc = "right"
            /\ LET r == Try(cur, dir) IN
                 /\ r.kind = "T"
                 /\ LET rext == IF path # <<>> /\ path[Len(path)][2] = "R" THEN CompS(r.e) ELSE r.e
                        np == Rev([i \in 1..Len(lpath) |-> <<lpath[i][1], Opp(lpath[i][2])>>]) \o <<<<seed, "L">>>> \o path
                        dd == IF Mode = "colour" THEN G[seed].d ELSE <<G[seed].d[1] + SumD(lpath) + SumD(path)>>
                    IN out' = Append(out, [s |-> Spell(np), l |-> SortSet(lext), r |-> SortSet(rext), d |-> dd])
            /\ pc' = "pick" /\ path' = <<>> /\ lpath' = <<>> /\ lext' = {}
            /\ UNCHANGED <<inp, G, T, avail, seed, cur, dir, round>>

Panic == /\ pc \in {"left", "right"} /\ Try(cur, dir).kind = "PANIC" /\ pc' = "panic"
         /\ UNCHANGED <<inp, G, T, avail, out, seed, cur, dir, path, lpath, lext, round>>
\* graph.finish(); dbg.fix_exts(None)
Finish == /\ pc = "pick" /\ avail = {} /\ pc' = "done"
          /\ out' = FixExts(out, 1..Len(out))
          /\ UNCHANGED <<inp, G, T, avail, seed, cur, dir, path, lpath, lext, round>>
\* feed the output back: a compressed graph, at most one node censored
Again == /\ pc = "done" /\ round < Rounds /\ round' = round + 1
         /\ \E cens \in {c \in SUBSET (1..Len(out)) : Cardinality(c) <= 1} : Start(out, cens)
         /\ UNCHANGED inp

Next == Begin \/ Pick \/ Step("left") \/ EndLeft \/ Step("right") \/ EndRight \/ Panic \/ Finish \/ Again
Spec == Init /\ [][Next]_vars
\* liveness: every round terminates (the walk cannot run for ever)
FairSpec == Spec /\ WF_vars(Next)
Terminates == <>(pc \in {"done", "panic"})

Valid == pc = "done" => GraphFails(K, Stranded, Mode, T, out) = {}
NoPanic == pc # "panic"
\* no extension of the output is left unresolved
NoDangling == pc = "done" =>
   \A n \in 1..Len(out) : \A d \in {"L", "R"} : \A b \in BasesOf(out[n], d) :
      Lookup(K, Stranded, out, ExtK(TermK(K, out[n], d), d, b), d) # {}
\* re-compressing an uncensored compressed graph changes nothing but order / orientation
Idempotent == (pc = "done" /\ round = 2 /\ Len(G) = Cardinality(DOMAIN T)) => TRUE
=============================================================================
