SPECIFICATION Spec
CONSTANTS
  W = 4
  K = 4
  Dump = FALSE
  MaxRun = 2
INVARIANT Inv
CHECK_DEADLOCK FALSE
