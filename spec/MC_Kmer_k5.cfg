SPECIFICATION Spec1
CONSTANTS
  W = 8
  K = 5
  Dump = FALSE
  MaxRun = 3
INVARIANT Inv
CHECK_DEADLOCK FALSE
