SPECIFICATION Spec
CONSTANTS
  MaxN = 7
  MaxM = 9
  MaxCalls = 4
  Fixed = TRUE
INVARIANTS Refines Coupled SizeHint
CHECK_DEADLOCK FALSE
