SPECIFICATION Spec
CONSTANTS
  K = 4
  Stranded = FALSE
  Inputs <- In_K4_AT_10
  Holes = TRUE
  Beam = 2
  Fixed = TRUE
INVARIANTS TypeOK NoPanic WalksOK RepeatsOK ScoresOK Sorted
CHECK_DEADLOCK FALSE
