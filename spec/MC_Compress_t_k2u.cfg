SPECIFICATION Spec
CONSTANTS
  K = 2
  Stranded = FALSE
  Mode = "sum"
  Thr = 1
  Inputs <- In_K2_7
  Dump = FALSE
INVARIANTS Valid NoPanic AvailDisjoint LinksOK ExportOK Emit
PROPERTY AvailShrinks
CHECK_DEADLOCK FALSE
