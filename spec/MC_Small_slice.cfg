SPECIFICATION Spec
CONSTANTS
  Which = "slice"
  K = 3
  B = 4
  MaxLen = 6
  Alpha = {0, 1, 3}
INVARIANT OK
CHECK_DEADLOCK FALSE
