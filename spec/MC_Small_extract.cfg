SPECIFICATION Spec
CONSTANTS
  Which = "extract"
  K = 6
  B = 4
  MaxLen = 9
  Alpha = {0, 3}
INVARIANT OK
CHECK_DEADLOCK FALSE
