--------------------------- MODULE FilterPlanInd ---------------------------
(* Unbounded complement to FilterPlan (TLC explores slices 1..300): an        *)
(* inductive invariant of the pass-planning loop of filter_kmers, for EVERY    *)
(* slices >= 1, discharged by Apalache (Init => IndInv; IndInv /\ Next =>      *)
(* IndInv'; IndInv => Safe).  Safe: when the loop stops, the ranges            *)
(* [i*sz, (i+1)*sz) tile 0..255 without gap or overlap and only the last one   *)
(* reaches 256 - the assertion at filter.rs:167 can never fire, and the        *)
(* number of passes is ceil(256 / sz).                                         *)
EXTENDS Integers

VARIABLES
  \* @type: Int;
  slices,
  \* @type: Int;
  sz,
  \* @type: Int;
  start,
  \* @type: Int;
  npass

\* sz = 256 \div slices + 1, stated without division: 256 - slices < (sz - 1) * slices <= 256
SzOK == sz >= 1 /\ (sz - 1) * slices <= 256 /\ 256 < sz * slices

Init == /\ slices \in Int /\ sz \in Int /\ slices >= 1 /\ SzOK /\ start = 0 /\ npass = 0
Next == \/ /\ start < 256 /\ start' = start + sz /\ npass' = npass + 1 /\ UNCHANGED <<slices, sz>>
        \/ /\ start >= 256 /\ UNCHANGED <<slices, sz, start, npass>>

IndInv == /\ slices >= 1 /\ SzOK /\ npass >= 0
          /\ start = npass * sz
          /\ (npass > 0 => (npass - 1) * sz < 256)
Safe == start >= 256 => /\ npass >= 1 /\ npass * sz >= 256 /\ (npass - 1) * sz < 256
                        /\ npass <= 256 /\ (slices > 256 => (sz = 1 /\ npass = 256))
IndInit == slices \in Int /\ sz \in Int /\ start \in Int /\ npass \in Int /\ IndInv
=============================================================================
