----------------------------- MODULE PathImpl -----------------------------
(* DebruijnGraph::max_path and sequence_of_path (graph.rs) as a state machine: one action per step of the greedy walk.
   C03: "Any walk along reported edges, including the best-path queries, spells a sequence whose k-mers are precisely
   the walked nodes' k-mers in order, with no node repeated in a best path."
   Graphs: the one-k-mer-per-node graph of every read set in scope (score = the k-mer's count, solid = count >= SolidMin),
   in two node orders, optionally with one k-mer removed so that extensions dangle. *)
EXTENDS Dbg, SequencesExt, TLC, Json
CONSTANTS K, Stranded, Inputs, Holes, SolidMin, Dump
VARIABLES inp, g, phase, best, cur, used, path
vars == <<inp, g, phase, best, cur, used, path>>

RECURSIVE LexSeq(_)
LexSeq(S) == IF S = {} THEN <<>> ELSE LET m == CHOOSE x \in S : \A y \in S : y = x \/ LexLess(x, y) IN <<m>> \o LexSeq(S \ {m})
OnePerKmer(T, keys) == [j \in 1..Len(keys) |-> [s |-> keys[j], l |-> SortSet(T[keys[j]].l), r |-> SortSet(T[keys[j]].r), d |-> T[keys[j]].d]]

Score(n) == g[n].d[1]
Solid(n) == g[n].d[1] >= SolidMin
\* Node::edges(dir): one edge per extension base that resolves, in base order
EdgeSeq(n, d) ==
  LET F[b \in 0..4] == IF b = 0 THEN <<>>
                       ELSE LET hit == IF (b - 1) \in BasesOf(g[n], d) THEN Lookup(K, Stranded, g, ExtK(TermK(K, g[n], d), d, b - 1), d) ELSE {}
                            IN IF hit = {} THEN F[b - 1] ELSE Append(F[b - 1], CHOOSE t \in hit : TRUE)
  IN F[4]
None == <<0, "L">>
\* the candidate loop of max_path: strictly better score replaces the current choice (None scores 0)
PickNext(es) ==
  LET F[j \in 0..Len(es)] == IF j = 0 THEN None
                             ELSE LET prev == F[j - 1]  ps == IF prev = None THEN 0 ELSE Score(prev[1])
                                  IN IF Score(es[j][1]) > ps THEN <<es[j][1], es[j][2]>> ELSE prev
  IN F[Len(es)]
SolidCount(es) == Cardinality({j \in 1..Len(es) : Solid(es[j][1])})

Init == /\ inp \in Inputs
        /\ g = <<>> /\ phase = "build" /\ best = 0 /\ cur = None /\ used = {} /\ path = <<>>
Build == /\ phase = "build"
         /\ \E desc \in BOOLEAN : \E hole \in (IF Holes THEN 0..3 ELSE {0}) :
              LET T == RefTable(K, Stranded, 1, inp)
                  ks == LexSeq(DOMAIN T)
                  kept == IF hole = 0 \/ hole > Len(ks) THEN ks ELSE SelectSeq(ks, LAMBDA x : x # ks[hole])
              IN g' = OnePerKmer(T, IF desc THEN Rev(kept) ELSE kept)
         /\ phase' = "start"
         /\ UNCHANGED <<inp, best, cur, used, path>>
\* the first node with the highest score (strict > in the scan)
Start == /\ phase = "start"
         /\ IF Len(g) = 0 THEN phase' = "done" /\ UNCHANGED <<best, cur, used, path>>
            ELSE LET b == CHOOSE n \in 1..Len(g) : \A m \in 1..Len(g) : Score(m) < Score(n) \/ (Score(m) = Score(n) /\ m >= n)
                 IN best' = b /\ used' = {b} /\ path' = <<<<b, "L">>>> /\ cur' = <<b, "L">> /\ phase' = "fwd"
         /\ UNCHANGED <<inp, g>>
Step == /\ phase \in {"fwd", "bwd"}
        /\ LET es == EdgeSeq(cur[1], Opp(cur[2]))
               nx == PickNext(es)
           IN IF SolidCount(es) > 1 \/ nx = None \/ nx[1] \in used
              THEN \* this leg is over
                   /\ IF phase = "fwd" THEN phase' = "bwd" /\ cur' = <<best, "R">> ELSE phase' = "done" /\ cur' = cur
                   /\ UNCHANGED <<used, path>>
              ELSE /\ path' = (IF phase = "fwd" THEN Append(path, nx) ELSE <<<<nx[1], Opp(nx[2])>>>> \o path)
                   /\ used' = used \cup {nx[1]} /\ cur' = nx
                   /\ UNCHANGED phase
        /\ UNCHANGED <<inp, g, best>>
Next == Build \/ Start \/ Step
Spec == Init /\ [][Next]_vars
FairSpec == Spec /\ WF_vars(Next)
Terminates == <>(phase = "done")

\* ---- sequence_of_path
Oriented(x) == IF x[2] = "L" THEN g[x[1]].s ELSE RC(g[x[1]].s)
SeqOfPath(p) == LET F[j \in 0..Len(p)] ==
                      IF j = 0 THEN <<>>
                      ELSE IF j = 1 THEN Oriented(p[1])
                      ELSE LET nx == Oriented(p[j]) IN F[j - 1] \o Seg(nx, K, Len(nx))
                IN F[Len(p)]
\* ---- C03 on the path built so far (an invariant of every state, not only of the result)
IsPal(n) == PalNode(K, Stranded, g[n])
OutEdges(x) == IF IsPal(x[1]) THEN EdgeSetOf(K, Stranded, g, x[1], "L") \cup EdgeSetOf(K, Stranded, g, x[1], "R")
               ELSE EdgeSetOf(K, Stranded, g, x[1], Opp(x[2]))
IsWalk(p) == \A j \in 1..(Len(p) - 1) : \E t \in OutEdges(p[j]) : t[1] = p[j + 1][1] /\ (t[2] = p[j + 1][2] \/ IsPal(p[j + 1][1]))
Overlaps(p) == \A j \in 1..(Len(p) - 1) :
                 LET a == Oriented(p[j])  c == Oriented(p[j + 1]) IN Seg(a, Len(a) - K + 2, Len(a)) = Seg(c, 1, K - 1)
KmersWalked(p) == LET F[j \in 0..Len(p)] == IF j = 0 THEN <<>> ELSE F[j - 1] \o Kmers(Oriented(p[j]), K) IN F[Len(p)]
NoRepeat == Cardinality({path[j][1] : j \in 1..Len(path)}) = Len(path) /\ {path[j][1] : j \in 1..Len(path)} = used
WalkOK == IsWalk(path) /\ Overlaps(path)
SpellOK == Kmers(SeqOfPath(path), K) = KmersWalked(path)
HasBest == (phase \in {"fwd", "bwd", "done"} /\ Len(g) > 0) => \E j \in 1..Len(path) : path[j] = <<best, "L">>
TypeOK == phase \in {"build", "start", "fwd", "bwd", "done"} /\ used \subseteq 1..Len(g)
\* spec -> code: every graph of the model is handed to the real queries (vh replay graph, tag REPLAY-GRAPHQ)
Emit == (Dump /\ phase = "done") =>
          PrintT(ToJson([tag |-> "REPLAY-GRAPHQ", K |-> K, st |-> Stranded, mode |-> "sum", inp |-> inp, nodes |-> g]))
\* the walk only ever grows (every step adds one unused node or ends a leg): termination measure
Grows == [][Len(path') >= Len(path)]_vars
=============================================================================
