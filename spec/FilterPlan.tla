------------------------------ MODULE FilterPlan ------------------------------
(* Pass planning and the per-pass bucket loop of filter_kmers (filter.rs:      *)
(* 151-220).  slices -> sz = 256 \div slices + 1 -> ranges pushed while start  *)
(* < 256.  For EVERY slices in 1..MaxSlices: the ranges are ascending,         *)
(* contiguous and cover 0..255, the number of passes is one of the 31          *)
(* achievable values, and processing the keys pass by pass (keys of a bucket   *)
(* are emitted in the pass whose range holds the bucket, buckets ascending     *)
(* within a pass) emits every bucket exactly once, in ascending order - i.e.   *)
(* the concatenated output equals the one-pass output.                         *)
EXTENDS Naturals, Sequences, FiniteSets, TLC

CONSTANTS MaxSlices, Buckets   \* Buckets: the set of occupied bucket ids of the input (a subset of 0..255)
VARIABLES slices, start, npass, lastend, emitted, pc
vars == <<slices, start, npass, lastend, emitted, pc>>
Sz == (256 \div slices) + 1
Achievable == (1..16) \cup {18, 19, 20, 22, 24, 26, 29, 32, 37, 43, 52, 64, 86, 128, 256}

Init == slices \in 1..MaxSlices /\ start = 0 /\ npass = 0 /\ lastend = 0 /\ emitted = <<>> /\ pc = "plan"
\* one bucket pass: emit, in ascending order, the occupied buckets that fall in [start, start + sz)
RECURSIVE Asc(_)
Asc(S) == IF S = {} THEN <<>> ELSE LET m == CHOOSE x \in S : \A y \in S : x <= y IN <<m>> \o Asc(S \ {m})
Pass == /\ pc = "plan" /\ start < 256
        /\ Assert(start = lastend, <<"ranges not contiguous", slices, start, lastend>>)
        /\ emitted' = emitted \o Asc({b \in Buckets : b >= start /\ b < start + Sz})
        /\ lastend' = start + Sz /\ start' = start + Sz /\ npass' = npass + 1
        /\ UNCHANGED <<slices, pc>>
Fin == pc = "plan" /\ start >= 256 /\ pc' = "done" /\ UNCHANGED <<slices, start, npass, lastend, emitted>>
Next == Pass \/ Fin
Spec == Init /\ [][Next]_vars

Tiles == pc = "done" => /\ lastend >= 256                       \* the assert at filter.rs:167
                        /\ npass \in Achievable
                        /\ (slices > 256 => npass = 256)
                        /\ npass = (256 + Sz - 1) \div Sz
\* the multi-pass output is the one-pass output
SameAsOnePass == pc = "done" => emitted = Asc(Buckets)
=============================================================================
