------------------------------- MODULE MspImpl -------------------------------
(* The scanner loop of Scanner::scan (msp.rs:207-276) over a sequence of p-mer *)
(* scores: sc[q+1] is the score of the p-mer at position q, w = k-p+1 is the   *)
(* number of p-mers in a k-mer.  The scan depends on the sequence only through *)
(* these scores, so exploring ALL score sequences over a small range covers    *)
(* all sequences x all score functions, heavily tied and constant ones.        *)
(* min_pos / end_pos, rescan / strict improvement / keep.  At the end the      *)
(* intervals must satisfy the abstract C07 predicate; at every step the        *)
(* tracked minimizer is a minimum of the current k-mer's own window (the       *)
(* reason the bucket is a function of the k-mer, C08).                         *)
EXTENDS Naturals, Sequences, FiniteSets, TLC

CONSTANTS MaxP, MaxS, MaxW
VARIABLES sc, w, i, minp, mins, pc
vars == <<sc, w, i, minp, mins, pc>>
NP == Len(sc)

\* MinPos order (msp.rs:127-157): smaller score first; on ties the LARGER position is smaller, so min() keeps the rightmost
Better(a, b) == sc[a + 1] < sc[b + 1] \/ (sc[a + 1] = sc[b + 1] /\ a > b)
FindMin(lo, hi) == CHOOSE a \in lo..hi : \A b \in lo..hi : b # a => Better(a, b)

Init == /\ \E np \in 1..MaxP : sc \in [1..np -> 0..MaxS]
        /\ w \in 1..MaxW /\ w <= Len(sc)
        /\ i = 0 /\ minp = FindMin(0, w - 1) /\ mins = <<<<0, FindMin(0, w - 1)>>>> /\ pc = "scan"
Step == /\ pc = "scan" /\ i + 1 <= NP - w
        /\ LET j == i + 1  endp == j + w - 1 IN
             /\ i' = j
             /\ IF j > minp THEN LET q == FindMin(j, endp) IN minp' = q /\ mins' = Append(mins, <<j, q>>)          \* rescan
                ELSE IF sc[endp + 1] < sc[minp + 1] THEN minp' = endp /\ mins' = Append(mins, <<j, endp>>)        \* strict improvement
                ELSE UNCHANGED <<minp, mins>>                                                                      \* keep
        /\ UNCHANGED <<sc, w, pc>>
Finish == pc = "scan" /\ i + 1 > NP - w /\ pc' = "done" /\ UNCHANGED <<sc, w, i, minp, mins>>
Next == Step \/ Finish
Spec == Init /\ [][Next]_vars
FairSpec == Spec /\ WF_vars(Next)
Terminates == <>(pc = "done")

\* intervals in k-mer-start coordinates: interval t covers k-mer starts mins[t][1] .. (next start - 1)
NI == Len(mins)
First(t) == mins[t][1]
Last(t) == IF t < NI THEN mins[t + 1][1] - 1 ELSE NP - w
MP(t) == mins[t][2]
Valid == pc = "done" =>
   /\ First(1) = 0 /\ \A t \in 1..NI : First(t) <= Last(t)                                  \* start order, contiguous cover
   /\ \A t \in 1..NI : Last(t) - First(t) + 1 <= w                                           \* len = (#kmers - 1) + k <= 2k - p
   /\ \A t \in 1..NI : MP(t) >= Last(t) /\ MP(t) <= First(t) + w - 1                         \* minimizer inside every k-mer of the interval
   /\ \A t \in 1..NI : \A q \in First(t)..(Last(t) + w - 1) : sc[MP(t) + 1] <= sc[q + 1]     \* minimum over all p-mers of the interval
   /\ \A t \in 1..(NI - 1) : (Last(t) + 1 > MP(t)) \/ sc[Last(t) + w + 1] < sc[MP(t) + 1]    \* no premature end
WindowMin == pc = "scan" => /\ minp \in i..(i + w - 1)
                            /\ \A q \in i..(i + w - 1) : sc[minp + 1] <= sc[q + 1]
=============================================================================
