SPECIFICATION Spec1
CONSTANTS
  W = 4
  K = 2
  Dump = TRUE
  MaxRun = 4
INVARIANT Inv
CHECK_DEADLOCK FALSE
