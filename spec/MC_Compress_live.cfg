SPECIFICATION FairSpec
CONSTANTS
  K = 2
  Stranded = FALSE
  Mode = "sum"
  Thr = 1
  Inputs <- In_K2_5
  Dump = FALSE
PROPERTY Terminates
CHECK_DEADLOCK FALSE
