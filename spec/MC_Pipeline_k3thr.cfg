SPECIFICATION Spec
CONSTANTS
  K = 3
  Stranded = FALSE
  Thr = 2
  NB = 2
  Inputs <- In_K3_AT_10x2
INVARIANTS Valid NoPanic
CHECK_DEADLOCK FALSE
