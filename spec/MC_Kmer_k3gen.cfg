SPECIFICATION Spec1
CONSTANTS
  W = 4
  K = 3
  Dump = TRUE
  MaxRun = 4
INVARIANT Inv
CHECK_DEADLOCK FALSE
