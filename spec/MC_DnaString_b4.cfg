SPECIFICATION Spec
CONSTANTS
  B = 4
  MaxLen = 8
  Alpha = {0, 3}
  Chunks = {0, 1, 2, 3, 4}
INVARIANT Inv
CHECK_DEADLOCK FALSE
