SPECIFICATION Spec
CONSTANTS
  K = 4
  Stranded = FALSE
  Mode = "colour"
  Thr = 1
  Inputs <- In_K4_two
  Dump = FALSE
INVARIANTS Valid NoPanic AvailDisjoint LinksOK ExportOK Emit
PROPERTY AvailShrinks
CHECK_DEADLOCK FALSE
