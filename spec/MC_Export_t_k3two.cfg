SPECIFICATION Spec
CONSTANTS
  K = 3
  Stranded = FALSE
  Inputs <- In_K3_two
  Holes = TRUE
  FixHairpin = TRUE
  FixComma = TRUE
  Dump = FALSE
INVARIANTS TypeOK GfaSafe GfaDone JsonDone JsonSafe Emit
CHECK_DEADLOCK FALSE
