SPECIFICATION Spec
CONSTANTS
  Which = "msp"
  K = 3
  P = 1
  MaxLen = 6
  Alpha = {0, 1, 2, 3}
  Perms <- Perms1
INVARIANT OK
CHECK_DEADLOCK FALSE
