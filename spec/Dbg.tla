--------------------------------- MODULE Dbg ---------------------------------
(* Declarative meaning of a path-compressed De Bruijn graph.                    *)
(*                                                                              *)
(* A k-mer table T is a function  key |-> [l, r, d]  (keys are the strand       *)
(* representatives: the k-mer itself when stranded, Canon(k-mer) otherwise;     *)
(* l / r are the extension bases of the key AS STORED, d its payload).          *)
(* A graph is a sequence of nodes [s |-> string, l, r |-> SUBSET Base, d].      *)
(*                                                                              *)
(* GraphFails names the clauses of "nodes is the compression of T" that fail:   *)
(*   V1  every key occurs at exactly one (node, offset); nothing else occurs    *)
(*   V2a consecutive k-mers of a node follow an extension recorded for both     *)
(*   V2b consecutive k-mers of a node are joined by a MERGEABLE link             *)
(*   V3  no mergeable link leaves a node end towards another node (maximal)     *)
(*   V4  node payload = reduction over the payloads of its k-mers               *)
(*   V5  node extensions = outward extensions of its terminal k-mers            *)
(* V1-V3 pin the partition uniquely up to node order, orientation and the cut   *)
(* of an isolated cycle (lemma checked by TLC in MC_DbgUnique).                 *)
EXTENDS Dna

C(st, x) == IF st THEN x ELSE Canon(x)

\* ---- k-mer positions of a node list
NK(K, n) == IF Len(n.s) >= K THEN Len(n.s) - K + 1 ELSE 0
At(K, n, i) == Sub(n.s, i, K)
FirstK(K, n) == Sub(n.s, 1, K)
LastK(K, n) == Sub(n.s, Len(n.s) - K + 1, K)
PosOf(K, nodes) == UNION {{<<n, i>> : i \in 1..NK(K, nodes[n])} : n \in 1..Len(nodes)}
KmersOfNode(K, st, n) == {C(st, At(K, n, i)) : i \in 1..NK(K, n)}

\* extensions of k-mer x as oriented (x need not be the stored representative)
OE(st, T, x) == LET k == C(st, x) IN
                IF st \/ k = x THEN [l |-> T[k].l, r |-> T[k].r] ELSE FlipE([l |-> T[k].l, r |-> T[k].r])

\* join predicate of the caller: "all" (always) or "colour" (payload equality)
Join(mode, T, a, b) == mode # "colour" \/ T[a].d = T[b].d

\* mergeable link x -> y (y = Succ(x, b)): sole extension on both facing sides, two distinct
\* non-palindromic k-mers, accepted by the join predicate
Mergeable(K, st, mode, T, x, y) ==
  /\ C(st, x) \in DOMAIN T /\ C(st, y) \in DOMAIN T
  /\ C(st, x) # C(st, y)
  /\ (st \/ (~Pal(x) /\ ~Pal(y)))
  /\ OE(st, T, x).r = {y[K]}
  /\ OE(st, T, y).l = {x[1]}
  /\ Join(mode, T, C(st, x), C(st, y))

\* every extension of T points at a key of T
Closed(K, st, T) ==
  \A k \in DOMAIN T : /\ \A b \in T[k].r : C(st, Succ(k, b)) \in DOMAIN T
                      /\ \A a \in T[k].l : C(st, Pred(k, a)) \in DOMAIN T

\* drop extensions to k-mers outside S, restrict to S
Prune(st, T, S) ==
  [k \in S |-> [l |-> {a \in T[k].l : C(st, Pred(k, a)) \in S},
                r |-> {b \in T[k].r : C(st, Succ(k, b)) \in S},
                d |-> T[k].d]]

PayloadOK(K, st, mode, T, n) ==
  LET ks == KmersOfNode(K, st, n) IN
  CASE mode = "sum"    -> n.d = <<SumOver(LAMBDA k : T[k].d[1], ks)>>
    [] mode = "ids"    -> /\ n.d = SortSet(UNION {SetOf(T[k].d) : k \in ks})
                          /\ Len(n.d) = SumOver(LAMBDA k : Len(T[k].d), ks)
    [] mode = "colour" -> \A k \in ks : T[k].d = n.d
    [] OTHER -> FALSE

GraphFails(K, st, mode, T, nodes) ==
  LET NN == Len(nodes)
      N(n) == nodes[n]
      Pos == PosOf(K, nodes)
      InT == \A p \in Pos : C(st, At(K, N(p[1]), p[2])) \in DOMAIN T
      LongEnough == \A n \in 1..NN : Len(N(n).s) >= K
      V1 == /\ LongEnough
            /\ {C(st, At(K, N(p[1]), p[2])) : p \in Pos} = DOMAIN T
            /\ Cardinality(Pos) = Cardinality(DOMAIN T)
      V2a == \A n \in 1..NN : \A i \in 1..(NK(K, N(n)) - 1) :
               LET x == At(K, N(n), i)  y == At(K, N(n), i + 1) IN
               y[K] \in OE(st, T, x).r /\ x[1] \in OE(st, T, y).l
      V2b == \A n \in 1..NN : \A i \in 1..(NK(K, N(n)) - 1) :
               Mergeable(K, st, mode, T, At(K, N(n), i), At(K, N(n), i + 1))
      InNode(n, k) == k \in KmersOfNode(K, st, N(n))
      V3 == \A n \in 1..NN :
              LET f == FirstK(K, N(n))  la == LastK(K, N(n)) IN
              /\ \A b \in OE(st, T, la).r :
                   LET y == Succ(la, b) IN Mergeable(K, st, mode, T, la, y) => InNode(n, C(st, y))
              /\ \A a \in OE(st, T, f).l :
                   LET w == Pred(f, a) IN Mergeable(K, st, mode, T, w, f) => InNode(n, C(st, w))
      V4 == \A n \in 1..NN : PayloadOK(K, st, mode, T, N(n))
      V5 == \A n \in 1..NN : /\ SetOf(N(n).l) = OE(st, T, FirstK(K, N(n))).l
                             /\ SetOf(N(n).r) = OE(st, T, LastK(K, N(n))).r
      closed == Closed(K, st, T)
  IN {c \in {"V1", "V2a", "V2b", "V3", "V4", "V5"} :
        ~(CASE c = "V1"  -> V1
            [] c = "V2a" -> (InT /\ LongEnough) => V2a
            [] c = "V2b" -> (InT /\ LongEnough /\ closed) => V2b
            [] c = "V3"  -> (InT /\ LongEnough /\ closed) => V3
            [] c = "V4"  -> (InT /\ LongEnough) => V4
            [] c = "V5"  -> (InT /\ LongEnough) => V5)}

\* ---- reference table of a read set (what counting/filtering must return; count payload)
ObsOf(K, reads) == UNION {{<<r, i>> : i \in 1..NKmers(reads[r], K)} : r \in 1..Len(reads)}
ObsKmer(K, reads, o) == Sub(reads[o[1]], o[2], K)
FlipObs(st, x) == ~st /\ ~LexLess(x, RC(x))          \* the code's rule: flip unless x < rc(x)
ObsExts(K, st, reads, o) ==
  LET rd == reads[o[1]]  i == o[2]
      raw == [l |-> IF i > 1 THEN {rd[i-1]} ELSE {}, r |-> IF i + K <= Len(rd) THEN {rd[i+K]} ELSE {}]
  IN IF FlipObs(st, Sub(rd, i, K)) THEN FlipE(raw) ELSE raw
RefKeys(K, st, reads) == {C(st, ObsKmer(K, reads, o)) : o \in ObsOf(K, reads)}
RefGroup(K, st, reads, k) == {o \in ObsOf(K, reads) : C(st, ObsKmer(K, reads, o)) = k}
RefTable(K, st, thr, reads) ==
  LET keys == {k \in RefKeys(K, st, reads) : Cardinality(RefGroup(K, st, reads, k)) >= thr} IN
  [k \in keys |-> LET g == RefGroup(K, st, reads, k) IN
     [l |-> UNION {ObsExts(K, st, reads, o).l : o \in g},
      r |-> UNION {ObsExts(K, st, reads, o).r : o \in g},
      d |-> <<Cardinality(g)>>]]

\* the same with the payload of the given mode: count (sum) or the sorted set of 0-based read ids (colour)
RefTableM(K, st, thr, reads, mode) ==
  LET R == RefTable(K, st, thr, reads) IN
  IF mode = "colour"
  THEN [k \in DOMAIN R |-> [l |-> R[k].l, r |-> R[k].r, d |-> SortSet({o[1] - 1 : o \in RefGroup(K, st, reads, k)})]]
  ELSE R

\* ---- link lookup in a finished graph (graph.rs find_link) as an abstract function:
\* {} or {<<node (1-based), arrival side, flip>>}
Lookup(K, st, nodes, y, dir) ==
  LET NN == Len(nodes) IN
  IF dir = "R"
  THEN LET a == {n \in 1..NN : FirstK(K, nodes[n]) = y} IN
       IF a # {} THEN {<<n, "L", FALSE>> : n \in a}
       ELSE IF st THEN {} ELSE {<<n, "R", TRUE>> : n \in {m \in 1..NN : LastK(K, nodes[m]) = RC(y)}}
  ELSE LET a == {n \in 1..NN : LastK(K, nodes[n]) = y} IN
       IF a # {} THEN {<<n, "R", FALSE>> : n \in a}
       ELSE IF st THEN {} ELSE {<<n, "L", TRUE>> : n \in {m \in 1..NN : FirstK(K, nodes[m]) = RC(y)}}

ExtK(x, dir, b) == IF dir = "R" THEN Succ(x, b) ELSE Pred(x, b)
TermK(K, n, dir) == IF dir = "R" THEN LastK(K, n) ELSE FirstK(K, n)
BasesOf(n, dir) == IF dir = "R" THEN SetOf(n.r) ELSE SetOf(n.l)

\* the k-mer table a graph denotes: interior k-mers carry their interior links, terminal k-mers the
\* node's extensions; the node payload sits on the node's first k-mer (sum / ids) or on all (colour)
TableOfGraph(K, st, mode, g) ==
  LET Pos == PosOf(K, g)
      keys == {C(st, At(K, g[p[1]], p[2])) : p \in Pos}
      PosOfKey(k) == CHOOSE p \in Pos : C(st, At(K, g[p[1]], p[2])) = k
  IN [k \in keys |->
        LET p == PosOfKey(k)  n == g[p[1]]  i == p[2]  x == At(K, n, i)
            o == [l |-> IF i = 1 THEN SetOf(n.l) ELSE {n.s[i-1]},
                  r |-> IF i = NK(K, n) THEN SetOf(n.r) ELSE {n.s[i+K]}]
            e == IF st \/ x = k THEN o ELSE FlipE(o)
        IN [l |-> e.l, r |-> e.r,
            d |-> CASE mode = "sum" -> (IF i = 1 THEN n.d ELSE <<0>>)
                    [] mode = "ids" -> (IF i = 1 THEN n.d ELSE <<>>)
                    [] OTHER -> n.d]]

\* a node list in which every strand representative occurs at most once and no node is shorter than K
WellFormedGraph(K, st, g) ==
  /\ \A n \in 1..Len(g) : Len(g[n].s) >= K
  /\ Cardinality({C(st, At(K, g[p[1]], p[2])) : p \in PosOf(K, g)}) = Cardinality(PosOf(K, g))

\* ---- the comparison key for "same graph": partition with payloads, and adjacency
PalNode(K, st, n) == ~st /\ Len(n.s) = K /\ Pal(n.s)
InteriorLinks(K, st, nodes) ==
  UNION {{C(st, Sub(nodes[n].s, i, K + 1)) : i \in 1..(Len(nodes[n].s) - K)} : n \in 1..Len(nodes)}
TerminalLinks(K, st, nodes) ==
  UNION {UNION {{C(st, IF d = "R" THEN LastK(K, nodes[n]) \o <<b>> ELSE <<b>> \o FirstK(K, nodes[n])) :
                   b \in {x \in BasesOf(nodes[n], d) : Lookup(K, st, nodes, ExtK(TermK(K, nodes[n], d), d, x), d) # {}}} :
                d \in {"L", "R"}} : n \in 1..Len(nodes)}
Links(K, st, nodes) == InteriorLinks(K, st, nodes) \cup TerminalLinks(K, st, nodes)
Blocks(K, st, nodes) == {<<KmersOfNode(K, st, nodes[n]), nodes[n].d>> : n \in 1..Len(nodes)}

\* edges leaving side d of node n (find_edges): resolvable extensions only
EdgeSetOf(K, st, nodes, n, d) ==
  UNION {Lookup(K, st, nodes, ExtK(TermK(K, nodes[n], d), d, b), d) : b \in BasesOf(nodes[n], d)}
\* whenever u reaches v, v reaches u through the facing side (both sides of a palindromic single-k-mer node count as one)
SymmetricGraph(K, st, nodes) ==
  \A n \in 1..Len(nodes) : \A d \in {"L", "R"} : \A t \in EdgeSetOf(K, st, nodes, n, d) :
     LET back(sd) == \E u \in EdgeSetOf(K, st, nodes, t[1], sd) : u[1] = n /\ (u[2] = d \/ PalNode(K, st, nodes[n]))
     IN back(t[2]) \/ (PalNode(K, st, nodes[t[1]]) /\ back(Opp(t[2])))

\* (K+1)-mers observed in the reads between retained k-mers
ObsLinks(K, st, reads, keep) ==
  LET RL == UNION {{<<r, i>> : i \in 1..(IF Len(reads[r]) > K THEN Len(reads[r]) - K ELSE 0)} : r \in 1..Len(reads)} IN
  {C(st, Sub(reads[p[1]], p[2], K + 1)) :
     p \in {q \in RL : C(st, Sub(reads[q[1]], q[2], K)) \in keep /\ C(st, Sub(reads[q[1]], q[2] + 1, K)) \in keep}}
=============================================================================
