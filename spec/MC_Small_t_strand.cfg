SPECIFICATION Spec
CONSTANTS
  Which = "strand"
  K = 3
  B = 4
  MaxLen = 5
  Alpha = {0, 1, 3}
INVARIANT OK
CHECK_DEADLOCK FALSE
