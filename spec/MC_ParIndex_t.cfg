SPECIFICATION Spec
CONSTANTS
  Keys = {k1, k2, k3, k4}
  Slots = {s1, s2, s3}
  Threads = {t1, t2, t3}
INVARIANTS ScheduleIndependent PhaseOneDone
CHECK_DEADLOCK FALSE
