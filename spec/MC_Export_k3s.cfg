SPECIFICATION Spec
CONSTANTS
  K = 3
  Stranded = TRUE
  Inputs <- In_K3_6
  Holes = FALSE
  FixHairpin = TRUE
  FixComma = TRUE
  Dump = FALSE
INVARIANTS TypeOK GfaSafe GfaDone JsonDone JsonSafe Emit
CHECK_DEADLOCK FALSE
