SPECIFICATION Spec
CONSTANTS
  K = 3
  Stranded = FALSE
  Inputs <- In_K3_6
  Holes = TRUE
  FixHairpin = TRUE
  FixComma = TRUE
  Dump = TRUE
INVARIANTS TypeOK GfaSafe GfaDone JsonDone JsonSafe Emit
CHECK_DEADLOCK FALSE
