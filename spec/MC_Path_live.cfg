SPECIFICATION FairSpec
CONSTANTS
  K = 2
  Stranded = FALSE
  Inputs <- In_K2_5
  Holes = FALSE
  SolidMin = 2
  Dump = FALSE
PROPERTY Terminates
CHECK_DEADLOCK FALSE
