----------------------------- MODULE ExportRules -----------------------------
(* The link-emission rules of the GFA and JSON exports (graph.rs: node_to_gfa, to_json_rest, Node::edges_to_json)
   transcribed as pure operators over a finished graph, and the C20 predicates on what they write.
   FixHairpin / FixComma = FALSE give the code as it was pinned (defects F3 and F4 of DESIGN section 7). *)
EXTENDS Dbg, SequencesExt

\* ---- GFA: lines written while visiting node n.  A line is <<from, from-orientation, to, to-orientation>>.
GfaOfNode(K, st, nodes, n, fixHairpin) ==
  LET ToDir(side) == IF side = "L" THEN "+" ELSE "-"
      left == {t \in EdgeSetOf(K, st, nodes, n, "L") : t[1] >= n}
      right == {t \in EdgeSetOf(K, st, nodes, n, "R") : t[1] > n \/ (fixHairpin /\ t[1] = n /\ t[2] = "R")}
  IN {<<n, "-", t[1], ToDir(t[2])>> : t \in left} \cup {<<n, "+", t[1], ToDir(t[2])>> : t \in right}

\* an adjacency is an unordered pair of ports <<node, side>>; both sides of a palindromic single-k-mer node are one port
PortOf(K, st, nodes, n, side) == <<n, IF PalNode(K, st, nodes[n]) THEN "L" ELSE side>>
PortLess(p, q) == p[1] < q[1] \/ (p[1] = q[1] /\ p[2] = "L" /\ q[2] = "R")
NormPair(p, q) == IF PortLess(q, p) THEN <<q, p>> ELSE <<p, q>>
AdjOf(K, st, nodes) ==
  UNION {UNION {{NormPair(PortOf(K, st, nodes, u, d), PortOf(K, st, nodes, t[1], t[2])) : t \in EdgeSetOf(K, st, nodes, u, d)} :
                d \in {"L", "R"}} : u \in 1..Len(nodes)}
AdjOfLine(K, st, nodes, x) ==
  NormPair(PortOf(K, st, nodes, x[1], IF x[2] = "+" THEN "R" ELSE "L"), PortOf(K, st, nodes, x[3], IF x[4] = "+" THEN "L" ELSE "R"))
TouchesPal(K, st, nodes, a) == PalNode(K, st, nodes[a[1][1]]) \/ PalNode(K, st, nodes[a[2][1]])

\* lines: a set of <<n, o, t, o>> (lines of different nodes differ in their first component, lines of one node in the
\* rest: two extensions of one side never resolve to the same end of the same node)
GfaNoInvented(K, st, nodes, lines) == \A x \in lines : AdjOfLine(K, st, nodes, x) \in AdjOf(K, st, nodes)
GfaCount(K, st, nodes, lines, a) == Cardinality({x \in lines : AdjOfLine(K, st, nodes, x) = a})
GfaComplete(K, st, nodes, lines) == \A a \in AdjOf(K, st, nodes) : GfaCount(K, st, nodes, lines, a) >= 1
GfaOnce(K, st, nodes, lines) ==
  \A a \in AdjOf(K, st, nodes) : GfaCount(K, st, nodes, lines, a) <= 1 \/ (TouchesPal(K, st, nodes, a) /\ GfaCount(K, st, nodes, lines, a) = 2)
GfaAll(K, st, nodes, fixHairpin) == UNION {GfaOfNode(K, st, nodes, n, fixHairpin) : n \in 1..Len(nodes)}

\* ---- JSON links array as a token sequence: a link token is <<source, target, arrival side>>, a separator is SepTok
SepTok == <<0, 0, ",">>
REdgeSeq(K, st, nodes, n) == SetToSeq(EdgeSetOf(K, st, nodes, n, "R"))
\* Node::edges_to_json: the node's right edges separated by commas
EdgeToks(K, st, nodes, n) ==
  LET es == REdgeSeq(K, st, nodes, n)
      F[i \in 0..Len(es)] == IF i = 0 THEN <<>>
                            ELSE F[i - 1] \o <<<<n, es[i][1], es[i][2]>>>> \o (IF i < Len(es) THEN <<SepTok>> ELSE <<>>)
  IN F[Len(es)]
\* one visit of to_json_rest's loop: returns <<tokens appended, wrote_any afterwards>>
JsonVisit(K, st, nodes, n, wroteAny, fixComma) ==
  LET toks == EdgeToks(K, st, nodes, n) IN
  IF fixComma
  THEN IF toks = <<>> THEN <<<<>>, wroteAny>>
       ELSE <<(IF wroteAny THEN <<SepTok>> ELSE <<>>) \o toks, TRUE>>
  ELSE \* pinned: the separator AFTER a group was chosen by "is this the last node"
       IF toks = <<>> THEN <<<<>>, wroteAny>>
       ELSE <<toks \o (IF n = Len(nodes) THEN <<>> ELSE <<SepTok>>), TRUE>>
IsLinkTok(t) == t # SepTok
\* a JSON array body: empty, or link tokens separated by single commas
WellFormedArray(toks) ==
  \/ toks = <<>>
  \/ /\ Len(toks) % 2 = 1
     /\ \A i \in 1..Len(toks) : (i % 2 = 1) = IsLinkTok(toks[i])
JsonLinksExact(K, st, nodes, toks) ==
  LET want == UNION {{<<u, t[1], t[2]>> : t \in EdgeSetOf(K, st, nodes, u, "R")} : u \in 1..Len(nodes)}
      got == {i \in 1..Len(toks) : IsLinkTok(toks[i])}
  IN /\ {toks[i] : i \in got} = want
     /\ Cardinality(got) = Cardinality(want)
=============================================================================
