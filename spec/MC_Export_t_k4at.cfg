SPECIFICATION Spec
CONSTANTS
  K = 4
  Stranded = FALSE
  Inputs <- In_K4_AT_10
  Holes = TRUE
  FixHairpin = TRUE
  FixComma = TRUE
  Dump = FALSE
INVARIANTS TypeOK GfaSafe GfaDone JsonDone JsonSafe Emit
CHECK_DEADLOCK FALSE
