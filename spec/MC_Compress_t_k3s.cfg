SPECIFICATION Spec
CONSTANTS
  K = 3
  Stranded = TRUE
  Mode = "sum"
  Thr = 1
  Inputs <- In_K3_7
  Dump = FALSE
INVARIANTS Valid NoPanic AvailDisjoint LinksOK ExportOK Emit
PROPERTY AvailShrinks
CHECK_DEADLOCK FALSE
