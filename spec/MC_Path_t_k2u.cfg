SPECIFICATION Spec
CONSTANTS
  K = 2
  Stranded = FALSE
  Inputs <- In_K2_6
  Holes = TRUE
  SolidMin = 2
  Dump = FALSE
INVARIANTS TypeOK NoRepeat WalkOK SpellOK HasBest Emit
PROPERTY Grows
CHECK_DEADLOCK FALSE
