SPECIFICATION Spec
CONSTANTS
  S = 1
  B = 6
  LB = 2
  RunAlpha = {0, 3}
  FullMask = TRUE
INVARIANT Clean
CHECK_DEADLOCK FALSE
