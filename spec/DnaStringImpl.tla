---------------------------- MODULE DnaStringImpl ----------------------------
(* Block-level model of DnaString (dna_string.rs): a vector of B-lane blocks   *)
(* plus a length.  push allocates a block when bit = 0, extend fills the       *)
(* partial block base by base and then packs at most B bases per new block,    *)
(* set_mut / clear / blank.  Invariant: exactly ceil(len/B) blocks and zero    *)
(* padding, which is what makes the DERIVED Eq / Ord / Hash on (storage, len)  *)
(* those of the string (lexicographic, a proper prefix first).  B = 32 in the  *)
(* code; B = 3 / 4 here.  Two registers, every pair of strings in scope.       *)
EXTENDS Dna, TLC

CONSTANTS B, MaxLen, Alpha, Chunks
VARIABLES x, y

ZeroB == [i \in 1..B |-> 0]
Abs(v) == [i \in 1..v.len |-> v.st[((i - 1) \div B) + 1][((i - 1) % B) + 1]]
Ceil(n) == (n + B - 1) \div B
WellFormed(v) == /\ Len(v.st) = Ceil(v.len)
                 /\ \A j \in 1..Len(v.st) : \A i \in 1..B : ((j - 1) * B + i > v.len) => v.st[j][i] = 0
New == [st |-> <<>>, len |-> 0]
Blank(n) == [st |-> [j \in 1..Ceil(n) |-> ZeroB], len |-> n]
\* push (dna_string.rs:303-310)
Push(v, b) == LET blk == v.len \div B  lane == v.len % B
                  st1 == IF lane = 0 /\ blk >= Len(v.st) THEN Append(v.st, ZeroB) ELSE v.st
              IN [st |-> [st1 EXCEPT ![blk + 1][lane + 1] = b], len |-> v.len + 1]
\* extend (dna_string.rs:312-343)
RECURSIVE Fill(_, _)
Fill(v, s) == IF v.len % B = 0 \/ s = <<>> THEN <<v, s>> ELSE Fill(Push(v, Head(s)), Tail(s))
RECURSIVE Pack(_, _)
Pack(v, s) == IF s = <<>> THEN v
              ELSE LET n == IF Len(s) < B THEN Len(s) ELSE B
                       blk == [i \in 1..B |-> IF i <= n THEN s[i] ELSE 0]
                   IN Pack([st |-> Append(v.st, blk), len |-> v.len + n], SubSeq(s, n + 1, Len(s)))
Extend(v, s) == LET f == Fill(v, s) IN IF f[2] = <<>> THEN f[1] ELSE Pack(f[1], f[2])
SetMut(v, i, b) == [v EXCEPT !.st[(i \div B) + 1][(i % B) + 1] = b]
Clear(v) == New
\* rc (dna_string.rs:104-110): new string, extend with the reversed complemented bases
RcOp(v) == Extend(New, RC(Abs(v)))

\* derived Ord on (Vec<u64>, usize): Vec lexicographic (element-wise, shorter prefix first), then len
RECURSIVE VecCmp(_, _)
VecCmp(a, b) == IF a = <<>> /\ b = <<>> THEN "eq" ELSE IF a = <<>> THEN "lt" ELSE IF b = <<>> THEN "gt"
                ELSE IF Head(a) = Head(b) THEN VecCmp(Tail(a), Tail(b)) ELSE IF LexLess(Head(a), Head(b)) THEN "lt" ELSE "gt"
DerivedCmp(a, b) == LET c == VecCmp(a.st, b.st) IN IF c # "eq" THEN c ELSE IF a.len < b.len THEN "lt" ELSE IF a.len > b.len THEN "gt" ELSE "eq"

ChunkSet == UNION {[1..n -> Alpha] : n \in Chunks}
Ops(v) ==
     {[op |-> "new", post |-> New, abs |-> <<>>]}
  \cup {[op |-> "clear", post |-> Clear(v), abs |-> <<>>]}
  \cup {[op |-> "blank", post |-> Blank(n), abs |-> [i \in 1..n |-> 0]] : n \in Chunks \cup {B, B + 1, 2 * B}}
  \cup {[op |-> "push", post |-> Push(v, b), abs |-> Append(Abs(v), b)] : b \in Alpha}
  \cup {[op |-> "extend", post |-> Extend(v, s), abs |-> Abs(v) \o s] : s \in ChunkSet}
  \cup {[op |-> "set", post |-> SetMut(v, i, b), abs |-> [Abs(v) EXCEPT ![i + 1] = b]] : i \in 0..(v.len - 1), b \in Alpha}
  \cup {[op |-> "rc", post |-> RcOp(v), abs |-> RC(Abs(v))]}

Check(v, o) == /\ Assert(Abs(o.post) = o.abs, <<"refinement broken", v, o>>)
               /\ Assert(WellFormed(o.post), <<"storage not well formed", v, o>>)
Init == x = New /\ y = New
Next == \/ \E o \in Ops(x) : o.post.len <= MaxLen /\ Check(x, o) /\ x' = o.post /\ y' = y
        \/ \E o \in Ops(y) : o.post.len <= MaxLen /\ Check(y, o) /\ y' = o.post /\ x' = x
Spec == Init /\ [][Next]_<<x, y>>
Inv == /\ WellFormed(x) /\ WellFormed(y)
       /\ (x = y) <=> (Abs(x) = Abs(y))                       \* derived Eq / Hash
       /\ DerivedCmp(x, y) = Cmp(Abs(x), Abs(y))              \* derived Ord = lexicographic, proper prefix first
=============================================================================
