SPECIFICATION Spec
CONSTANTS
  Which = "unique"
  K = 3
  B = 4
  MaxLen = 6
  Alpha = {0, 1, 2, 3}
INVARIANT OK
CHECK_DEADLOCK FALSE
