SPECIFICATION Spec
CONSTANTS
  K = 2
  Stranded = FALSE
  Mode = "sum"
  Inputs <- In_K2_5
  Rounds = 2
INVARIANTS Valid NoPanic NoDangling
CHECK_DEADLOCK FALSE
