SPECIFICATION FairSpec
CONSTANTS
  K = 2
  Stranded = FALSE
  Inputs <- In_K2_5
  Holes = TRUE
  Beam = 2
  Fixed = TRUE
PROPERTY Terminates
CHECK_DEADLOCK FALSE
