------------------------------ MODULE LmerImpl ------------------------------
(* Word-level model of Lmer (vmer.rs): S words of B lanes; the length lives in *)
(* the low LB lanes of the last word (base-4 digits).  set_slice_mut with its  *)
(* first-word and second-word masks and the protection of the length lanes,    *)
(* word-wise rc, get.  (S,B,LB) = (1..6,32,4) in the code; small here.  Every   *)
(* action asserts that the length field is unchanged and that exactly the      *)
(* addressed lanes change.                                                     *)
EXTENDS Dna, TLC

CONSTANTS S, B, LB, RunAlpha, FullMask
VARIABLE w

ZeroW == [i \in 1..B |-> 0]
MaxLen == S * B - LB
RECURSIVE Digits(_, _)
Digits(v, n) == IF n = 0 THEN <<>> ELSE Digits(v \div 4, n - 1) \o <<v % 4>>
RECURSIVE Val(_)
Val(d) == IF d = <<>> THEN 0 ELSE 4 * Val(SubSeq(d, 1, Len(d) - 1)) + d[Len(d)]
LenOf(v) == Val([i \in 1..LB |-> v[S][B - LB + i]])
New(len) == [j \in 1..S |-> IF j < S THEN ZeroW ELSE [i \in 1..B |-> IF i <= B - LB THEN 0 ELSE Digits(len, LB)[i - (B - LB)]]]
Get(v, p) == v[(p \div B) + 1][(p % B) + 1]
Abs(v) == [i \in 1..LenOf(v) |-> Get(v, i - 1)]
SetMut(v, p, b) == [v EXCEPT ![(p \div B) + 1][(p % B) + 1] = b]
ShR(x, n) == [i \in 1..B |-> IF i <= n THEN 0 ELSE x[i - n]]
ShL(x, n) == [i \in 1..B |-> IF i + n <= B THEN x[i + n] ELSE 0]
Max0(a) == IF a > 0 THEN a ELSE 0
\* set_slice_mut (vmer.rs:65-90); value = B lanes, run in the top n lanes
SetSlice(v, p, n, value) ==
  LET b0 == p \div B   bp == p % B
      \* bottom_mask(B - (bp + n)); FullMask = FALSE is the helper as pinned: asked for a whole word (bp = 0, n = 0) it computed
      \* (1 << 2B) - 1 with a shift by the full width, which wraps to 0 in a release build - nothing kept (defect 8)
      keepBottom == IF ~FullMask /\ bp + n = 0 THEN 0 ELSE Max0(B - (bp + n))
      prot0(i) == i <= bp \/ i > B - keepBottom \/ (b0 = S - 1 /\ i > B - LB)
      vtop == ShR(value, bp)
      w0 == [i \in 1..B |-> IF prot0(i) THEN v[b0 + 1][i] ELSE vtop[i]]
      nb0 == B - bp
  IN IF n > nb0
     THEN LET nb1 == n - nb0
              vbot == ShL(value, nb0)
              w1 == [i \in 1..B |-> IF i > nb1 THEN v[b0 + 2][i] ELSE vbot[i]]     \* bottom_mask(B - nb1) keeps the low lanes
          IN [v EXCEPT ![b0 + 1] = w0, ![b0 + 2] = w1]
     ELSE [v EXCEPT ![b0 + 1] = w0]
\* rc (vmer.rs:92-115)
RECURSIVE RcLoop(_, _, _, _)
RcLoop(v, acc, block, pos) ==
  LET len == LenOf(v) IN
  IF pos >= len THEN acc
  ELSE LET n == IF len - pos < B THEN len - pos ELSE B
           x == IF block = S - 1 THEN [i \in 1..B |-> IF i > B - LB THEN 0 ELSE v[block + 1][i]] ELSE v[block + 1]
           vrc == ShL([i \in 1..B |-> 3 - x[B + 1 - i]], B - n)
       IN RcLoop(v, SetSlice(acc, len - pos - n, n, vrc), block + 1, pos + n)
RcOp(v) == RcLoop(v, New(LenOf(v)), 0, 0)

ValueOf(run, junk) == [i \in 1..B |-> IF i <= Len(run) THEN run[i] ELSE junk]
Runs(n) == [1..n -> RunAlpha]
Ops(v) ==
     {[op |-> "new", post |-> New(n), abs |-> [i \in 1..n |-> 0], len |-> n] : n \in 0..MaxLen}
  \cup {[op |-> "set", post |-> SetMut(v, p, b), abs |-> [Abs(v) EXCEPT ![p + 1] = b], len |-> LenOf(v)] : p \in 0..(LenOf(v) - 1), b \in {0, 3}}
  \cup UNION {UNION {{[op |-> "set_slice", post |-> SetSlice(v, p, n, ValueOf(run, j)), len |-> LenOf(v),
                       abs |-> [i \in 1..LenOf(v) |-> IF i > p /\ i <= p + n THEN run[i - p] ELSE Abs(v)[i]]] :
                        run \in Runs(n), j \in {0, 3}} : n \in 0..Min2(B, LenOf(v) - p)} : p \in 0..(LenOf(v) - 1)}
  \cup {[op |-> "rc", post |-> RcOp(v), abs |-> RC(Abs(v)), len |-> LenOf(v)]}

Check(v, o) == /\ Assert(LenOf(o.post) = o.len, <<"length field changed", v, o>>)
               /\ Assert(Abs(o.post) = o.abs, <<"refinement broken", v, o>>)
Init == w = New(0)
Next == \E o \in Ops(w) : Check(w, o) /\ w' = o.post
Spec == Init /\ [][Next]_w
\* lanes beyond the length (outside the length field) never matter for equality only if they stay zero
Clean == \A p \in LenOf(w)..(MaxLen - 1) : Get(w, p) = 0
=============================================================================
