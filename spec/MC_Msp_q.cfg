SPECIFICATION Spec
CONSTANTS
  MaxP = 8
  MaxS = 2
  MaxW = 4
INVARIANTS Valid WindowMin
CHECK_DEADLOCK FALSE
