------------------------------ MODULE ParIndex ------------------------------
(* One level of the parallel minimal-perfect-hash builder used by              *)
(* BaseGraph::finish (boomphf Mphf::new_parallel: find_collisions, barrier,    *)
(* filter) as concurrent worker threads over two atomic bit vectors.  `slot`   *)
(* (the hash of each key at this level) and `owner` (which worker processes    *)
(* which key - any split = any rayon schedule) are chosen arbitrarily, so one  *)
(* TLC run covers every hash function, every work split and every              *)
(* interleaving of the labelled steps.  At the end the level - bit vector a,   *)
(* collision vector, keys carried to the next level - is a function of the     *)
(* key list alone: the index is schedule-independent.                          *)
EXTENDS Naturals, FiniteSets, TLC

CONSTANTS Keys, Slots, Threads
NThreads == Cardinality(Threads)

(* --algorithm level
variables
  slot \in [Keys -> Slots],
  owner \in [Keys -> Threads],
  a = [s \in Slots |-> FALSE],
  collide = [s \in Slots |-> FALSE],
  arrived = 0,
  redo = {};
process wk \in Threads
variables todo = {q \in Keys : owner[q] = self}, key = CHOOSE q \in Keys : TRUE, sawCollide = FALSE, wasSet = FALSE;
begin
 P1: while todo # {} do
       with x \in todo do key := x; todo := todo \ {x}; end with;
 RC:   sawCollide := collide[slot[key]];                 \* if collide.contains(idx) { continue }
 TS:   if ~sawCollide then
         wasSet := a[slot[key]]; a[slot[key]] := TRUE;    \* atomic fetch_or: insert_sync returns !wasSet
 SC:     if wasSet then collide[slot[key]] := TRUE; end if;
       end if;
     end while;
 B1: arrived := arrived + 1;
 B2: await arrived = NThreads;                            \* join of the first parallel pass
     todo := {q \in Keys : owner[q] = self};
 F1: while todo # {} do
       with x \in todo do key := x; todo := todo \ {x}; end with;
 F2:   if collide[slot[key]] then
 F3:     a[slot[key]] := FALSE; redo := redo \cup {key};
       end if;
     end while;
end process;
end algorithm; *)
\* BEGIN TRANSLATION
VARIABLES pc, slot, owner, a, collide, arrived, redo, todo, key, sawCollide, 
          wasSet

vars == << pc, slot, owner, a, collide, arrived, redo, todo, key, sawCollide, 
           wasSet >>

ProcSet == (Threads)

Init == (* Global variables *)
        /\ slot \in [Keys -> Slots]
        /\ owner \in [Keys -> Threads]
        /\ a = [s \in Slots |-> FALSE]
        /\ collide = [s \in Slots |-> FALSE]
        /\ arrived = 0
        /\ redo = {}
        (* Process wk *)
        /\ todo = [self \in Threads |-> {q \in Keys : owner[q] = self}]
        /\ key = [self \in Threads |-> CHOOSE q \in Keys : TRUE]
        /\ sawCollide = [self \in Threads |-> FALSE]
        /\ wasSet = [self \in Threads |-> FALSE]
        /\ pc = [self \in ProcSet |-> "P1"]

P1(self) == /\ pc[self] = "P1"
            /\ IF todo[self] # {}
                  THEN /\ \E x \in todo[self]:
                            /\ key' = [key EXCEPT ![self] = x]
                            /\ todo' = [todo EXCEPT ![self] = todo[self] \ {x}]
                       /\ pc' = [pc EXCEPT ![self] = "RC"]
                  ELSE /\ pc' = [pc EXCEPT ![self] = "B1"]
                       /\ UNCHANGED << todo, key >>
            /\ UNCHANGED << slot, owner, a, collide, arrived, redo, sawCollide, 
                            wasSet >>

RC(self) == /\ pc[self] = "RC"
            /\ sawCollide' = [sawCollide EXCEPT ![self] = collide[slot[key[self]]]]
            /\ pc' = [pc EXCEPT ![self] = "TS"]
            /\ UNCHANGED << slot, owner, a, collide, arrived, redo, todo, key, 
                            wasSet >>

TS(self) == /\ pc[self] = "TS"
            /\ IF ~sawCollide[self]
                  THEN /\ wasSet' = [wasSet EXCEPT ![self] = a[slot[key[self]]]]
                       /\ a' = [a EXCEPT ![slot[key[self]]] = TRUE]
                       /\ pc' = [pc EXCEPT ![self] = "SC"]
                  ELSE /\ pc' = [pc EXCEPT ![self] = "P1"]
                       /\ UNCHANGED << a, wasSet >>
            /\ UNCHANGED << slot, owner, collide, arrived, redo, todo, key, 
                            sawCollide >>

SC(self) == /\ pc[self] = "SC"
            /\ IF wasSet[self]
                  THEN /\ collide' = [collide EXCEPT ![slot[key[self]]] = TRUE]
                  ELSE /\ TRUE
                       /\ UNCHANGED collide
            /\ pc' = [pc EXCEPT ![self] = "P1"]
            /\ UNCHANGED << slot, owner, a, arrived, redo, todo, key, 
                            sawCollide, wasSet >>

B1(self) == /\ pc[self] = "B1"
            /\ arrived' = arrived + 1
            /\ pc' = [pc EXCEPT ![self] = "B2"]
            /\ UNCHANGED << slot, owner, a, collide, redo, todo, key, 
                            sawCollide, wasSet >>

B2(self) == /\ pc[self] = "B2"
            /\ arrived = NThreads
            /\ todo' = [todo EXCEPT ![self] = {q \in Keys : owner[q] = self}]
            /\ pc' = [pc EXCEPT ![self] = "F1"]
            /\ UNCHANGED << slot, owner, a, collide, arrived, redo, key, 
                            sawCollide, wasSet >>

F1(self) == /\ pc[self] = "F1"
            /\ IF todo[self] # {}
                  THEN /\ \E x \in todo[self]:
                            /\ key' = [key EXCEPT ![self] = x]
                            /\ todo' = [todo EXCEPT ![self] = todo[self] \ {x}]
                       /\ pc' = [pc EXCEPT ![self] = "F2"]
                  ELSE /\ pc' = [pc EXCEPT ![self] = "Done"]
                       /\ UNCHANGED << todo, key >>
            /\ UNCHANGED << slot, owner, a, collide, arrived, redo, sawCollide, 
                            wasSet >>

F2(self) == /\ pc[self] = "F2"
            /\ IF collide[slot[key[self]]]
                  THEN /\ pc' = [pc EXCEPT ![self] = "F3"]
                  ELSE /\ pc' = [pc EXCEPT ![self] = "F1"]
            /\ UNCHANGED << slot, owner, a, collide, arrived, redo, todo, key, 
                            sawCollide, wasSet >>

F3(self) == /\ pc[self] = "F3"
            /\ a' = [a EXCEPT ![slot[key[self]]] = FALSE]
            /\ redo' = (redo \cup {key[self]})
            /\ pc' = [pc EXCEPT ![self] = "F1"]
            /\ UNCHANGED << slot, owner, collide, arrived, todo, key, 
                            sawCollide, wasSet >>

wk(self) == P1(self) \/ RC(self) \/ TS(self) \/ SC(self) \/ B1(self)
               \/ B2(self) \/ F1(self) \/ F2(self) \/ F3(self)

(* Allow infinite stuttering to prevent deadlock on termination. *)
Terminating == /\ \A self \in ProcSet: pc[self] = "Done"
               /\ UNCHANGED vars

Next == (\E self \in Threads: wk(self))
           \/ Terminating

Spec == Init /\ [][Next]_vars

Termination == <>(\A self \in ProcSet: pc[self] = "Done")

\* END TRANSLATION

Hits(s) == {q \in Keys : slot[q] = s}
AllDone == \A t \in Threads : pc[t] = "Done"
ScheduleIndependent ==
  AllDone => /\ \A s \in Slots : a[s] = (Cardinality(Hits(s)) = 1)
             /\ \A s \in Slots : collide[s] = (Cardinality(Hits(s)) >= 2)
             /\ redo = {q \in Keys : Cardinality(Hits(slot[q])) >= 2}
PhaseOneDone == (arrived = NThreads) => \A s \in Slots : collide[s] = (Cardinality(Hits(s)) >= 2)
=============================================================================
