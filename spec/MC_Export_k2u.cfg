SPECIFICATION Spec
CONSTANTS
  K = 2
  Stranded = FALSE
  Inputs <- In_K2_5
  Holes = TRUE
  FixHairpin = TRUE
  FixComma = TRUE
  Dump = TRUE
INVARIANTS TypeOK GfaSafe GfaDone JsonDone JsonSafe Emit
CHECK_DEADLOCK FALSE
