SPECIFICATION Spec
CONSTANTS
  K = 4
  Stranded = FALSE
  Inputs <- In_K4_AT_10
  Holes = TRUE
  SolidMin = 1
  Dump = FALSE
INVARIANTS TypeOK NoRepeat WalkOK SpellOK HasBest Emit
PROPERTY Grows
CHECK_DEADLOCK FALSE
