SPECIFICATION Spec
CONSTANTS
  W = 4
  K = 2
  Dump = FALSE
  MaxRun = 4
INVARIANT Inv
CHECK_DEADLOCK FALSE
