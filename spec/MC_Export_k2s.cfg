SPECIFICATION Spec
CONSTANTS
  K = 2
  Stranded = TRUE
  Inputs <- In_K2_5
  Holes = TRUE
  FixHairpin = TRUE
  FixComma = TRUE
  Dump = FALSE
INVARIANTS TypeOK GfaSafe GfaDone JsonDone JsonSafe Emit
CHECK_DEADLOCK FALSE
