SPECIFICATION Spec
CONSTANTS
  S = 3
  B = 4
  LB = 2
  RunAlpha = {3}
  FullMask = TRUE
INVARIANT Clean
CHECK_DEADLOCK FALSE
