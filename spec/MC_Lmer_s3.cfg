SPECIFICATION Spec
CONSTANTS
  S = 3
  B = 4
  LB = 2
  RunAlpha = {3}
INVARIANT Clean
CHECK_DEADLOCK FALSE
