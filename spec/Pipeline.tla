------------------------------ MODULE Pipeline ------------------------------
(* Sharded assembly as the composition of the two implementation-shaped        *)
(* models: for EVERY assignment of the retained k-mers to buckets (a superset  *)
(* of what any minimizer scheme can produce - all that is assumed of MSP is    *)
(* C08: every observation of a k-mer lands in one bucket with its true         *)
(* flanks, so the per-bucket table is the restriction of the full table with   *)
(* its extensions UNPRUNED) run CompressFromHash bucket by bucket, combine,    *)
(* fix_exts, CompressFromGraph, fix_exts, and require the result to be the     *)
(* valid compression of the pruned table.  V1-V3 determine the partition, so   *)
(* a valid output IS the direct pipeline's graph up to cut and orientation.    *)
EXTENDS Dbg, TLC, SequencesExt

CONSTANTS K, Stranded, Thr, NB, Inputs
VARIABLES inp, T0, T, bucket, bk, kavail, knodes, pc, kseed, kcur, dir, path, lpath, lext,
          G, avail, out, seed, cur
KV == <<inp, T0, T, bucket, bk, kavail, knodes, kseed, kcur>>
GV == <<G, avail, out, seed, cur>>
vars == <<inp, T0, T, bucket, bk, kavail, knodes, pc, kseed, kcur, dir, path, lpath, lext, G, avail, out, seed, cur>>
Mode == "sum"

\* ---------------------------------------------------------------- phase 1: per-bucket CompressFromHash over T0
KSide(k, d) == IF d = "L" THEN T0[k].l ELSE T0[k].r
KTry(k, d) ==
  LET side == KSide(k, d) IN
  IF Cardinality(side) # 1 \/ (~Stranded /\ Pal(k)) THEN [kind |-> "T", e |-> side]
  ELSE LET b  == CHOOSE x \in side : TRUE
           nx == ExtK(k, d, b)
           fl == ~Stranded /\ ~LexLess(nx, RC(nx))
           nk == IF fl THEN RC(nx) ELSE nx
           nd == IF fl THEN Opp(d) ELSE d
           ip == ~Stranded /\ Pal(nk)
       IN IF nk \notin kavail THEN [kind |-> "T", e |-> side]      \* in another bucket, rejected, or used
          ELSE LET inc == IF fl THEN d ELSE Opp(d)
                   cnt == Cardinality(KSide(nk, inc))
               IN IF cnt = 0 /\ ~ip THEN [kind |-> "PANIC", e |-> side]
                  ELSE IF cnt = 1 /\ ~ip THEN [kind |-> "U", k |-> nk, d |-> nd]
                  ELSE [kind |-> "T", e |-> side]
BKeys(i) == {k \in DOMAIN T0 : bucket[k] = i}

Init == /\ inp \in Inputs
        /\ T0 = <<>> /\ T = <<>> /\ bucket = <<>> /\ bk = 0 /\ kavail = {} /\ knodes = <<>> /\ pc = "init"
        /\ kseed = <<>> /\ kcur = <<>> /\ dir = "L" /\ path = <<>> /\ lpath = <<>> /\ lext = {}
        /\ G = <<>> /\ avail = {} /\ out = <<>> /\ seed = 0 /\ cur = 0

Begin == /\ pc = "init"
         /\ LET full == RefTable(K, Stranded, 1, inp)
                valid == {k \in DOMAIN full : full[k].d[1] >= Thr}
                t0 == [k \in valid |-> full[k]]
            IN /\ T0' = t0 /\ T' = Prune(Stranded, t0, valid)
               /\ \E bm \in [valid -> 1..NB] : bucket' = bm /\ kavail' = {k \in valid : bm[k] = 1}
         /\ bk' = 1 /\ pc' = "kpick"
         /\ UNCHANGED <<inp, knodes, kseed, kcur, dir, path, lpath, lext>> /\ UNCHANGED GV

KPick == /\ pc = "kpick" /\ kavail # {}
         /\ \E s \in kavail : kseed' = s /\ kcur' = s /\ kavail' = kavail \ {s}
         /\ dir' = "L" /\ path' = <<>> /\ pc' = "kleft"
         /\ UNCHANGED <<inp, T0, T, bucket, bk, knodes, lpath, lext>> /\ UNCHANGED GV
KStep(phase) ==
         /\ pc = phase
         /\ LET r == KTry(kcur, dir) IN
              /\ r.kind = "U"
              /\ path' = Append(path, <<r.k, r.d>>) /\ kavail' = kavail \ {r.k} /\ kcur' = r.k /\ dir' = r.d
         /\ UNCHANGED <<inp, T0, T, bucket, bk, knodes, pc, kseed, lpath, lext>> /\ UNCHANGED GV
KEndLeft == /\ pc = "kleft"
            /\ LET r == KTry(kcur, dir) IN
                 /\ r.kind = "T"
                 /\ lext' = (IF path # <<>> /\ path[Len(path)][2] = "R" THEN CompS(r.e) ELSE r.e)
            /\ lpath' = path /\ path' = <<>> /\ kcur' = kseed /\ dir' = "R" /\ pc' = "kright"
            /\ UNCHANGED <<inp, T0, T, bucket, bk, kavail, knodes, kseed>> /\ UNCHANGED GV
KLeftBases  == [i \in 1..Len(lpath) |-> LET km == IF lpath[i][2] = "L" THEN lpath[i][1] ELSE RC(lpath[i][1]) IN km[1]]
KRightBases == [i \in 1..Len(path)  |-> LET km == IF path[i][2] = "L" THEN RC(path[i][1]) ELSE path[i][1] IN km[K]]
KSum(p) == LET F[i \in 0..Len(p)] == IF i = 0 THEN 0 ELSE F[i-1] + T0[p[i][1]].d[1] IN F[Len(p)]
KEndRight == /\ pc = "kright"
             /\ LET r == KTry(kcur, dir) IN
                  /\ r.kind = "T"
                  /\ LET rext == IF path # <<>> /\ path[Len(path)][2] = "L" THEN CompS(r.e) ELSE r.e
                         sq == Rev(KLeftBases) \o kseed \o KRightBases
                     IN knodes' = Append(knodes, [s |-> sq, l |-> SortSet(lext), r |-> SortSet(rext),
                                                  d |-> <<T0[kseed].d[1] + KSum(lpath) + KSum(path)>>])
             /\ pc' = "kpick" /\ path' = <<>> /\ lpath' = <<>> /\ lext' = {}
             /\ UNCHANGED <<inp, T0, T, bucket, bk, kavail, kseed, kcur, dir>> /\ UNCHANGED GV
KNextBucket == /\ pc = "kpick" /\ kavail = {} /\ bk < NB /\ bk' = bk + 1 /\ kavail' = BKeys(bk + 1)
               /\ UNCHANGED <<inp, T0, T, bucket, knodes, pc, kseed, kcur, dir, path, lpath, lext>> /\ UNCHANGED GV
KPanic == /\ pc \in {"kleft", "kright"} /\ KTry(kcur, dir).kind = "PANIC" /\ pc' = "panic"
          /\ UNCHANGED <<inp, T0, T, bucket, bk, kavail, knodes, kseed, kcur, dir, path, lpath, lext>> /\ UNCHANGED GV

\* ---------------------------------------------------------------- phase 2: combine, finish, compress_graph(None)
FixExts(g, valid) ==
  [n \in 1..Len(g) |->
     [s |-> g[n].s, d |-> g[n].d,
      l |-> SortSet({b \in SetOf(g[n].l) : \E t \in Lookup(K, Stranded, g, Pred(FirstK(K, g[n]), b), "L") : t[1] \in valid}),
      r |-> SortSet({b \in SetOf(g[n].r) : \E t \in Lookup(K, Stranded, g, Succ(LastK(K, g[n]), b), "R") : t[1] \in valid})]]
Combine == /\ pc = "kpick" /\ kavail = {} /\ bk = NB
           /\ G' = FixExts(knodes, 1..Len(knodes)) /\ avail' = 1..Len(knodes) /\ out' = <<>> /\ pc' = "pick"
           /\ seed' = 0 /\ cur' = 0 /\ dir' = "L" /\ path' = <<>> /\ lpath' = <<>> /\ lext' = {}
           /\ UNCHANGED KV
Try(n, d) ==
  LET side == BasesOf(G[n], d) IN
  IF Cardinality(side) # 1 \/ PalNode(K, Stranded, G[n]) THEN [kind |-> "T", e |-> side]
  ELSE LET b  == CHOOSE x \in side : TRUE
           nk == ExtK(TermK(K, G[n], d), d, b)
           lk == Lookup(K, Stranded, G, nk, d)
       IN IF lk = {} THEN [kind |-> "PANIC", e |-> side]
          ELSE LET t == CHOOSE x \in lk : TRUE  m == t[1]  inc == t[2] IN
               IF m \notin avail \/ (~Stranded /\ Pal(nk)) THEN [kind |-> "T", e |-> side]
               ELSE LET cnt == Cardinality(BasesOf(G[m], inc)) IN
                    IF cnt = 0 THEN [kind |-> "PANIC", e |-> side]
                    ELSE IF cnt = 1 THEN [kind |-> "U", n |-> m, out |-> Opp(inc)]
                    ELSE [kind |-> "T", e |-> side]
Pick == /\ pc = "pick" /\ avail # {}
        /\ LET s == CHOOSE x \in avail : \A y \in avail : x <= y IN
             seed' = s /\ cur' = s /\ avail' = avail \ {s}
        /\ dir' = "L" /\ path' = <<>> /\ pc' = "left"
        /\ UNCHANGED <<G, out, lpath, lext>> /\ UNCHANGED KV
Step(phase) ==
        /\ pc = phase
        /\ LET r == Try(cur, dir) IN
             /\ r.kind = "U"
             /\ path' = Append(path, <<r.n, Opp(r.out)>>) /\ avail' = avail \ {r.n} /\ cur' = r.n /\ dir' = r.out
        /\ UNCHANGED <<G, out, pc, seed, lpath, lext>> /\ UNCHANGED KV
EndLeft == /\ pc = "left"
           /\ LET r == Try(cur, dir) IN
                /\ r.kind = "T"
                /\ lext' = (IF path # <<>> /\ path[Len(path)][2] = "L" THEN CompS(r.e) ELSE r.e)
           /\ lpath' = path /\ path' = <<>> /\ cur' = seed /\ dir' = "R" /\ pc' = "right"
           /\ UNCHANGED <<G, avail, out, seed>> /\ UNCHANGED KV
Oriented(e) == IF e[2] = "L" THEN G[e[1]].s ELSE RC(G[e[1]].s)
Spell(p) == LET F[i \in 1..Len(p)] ==
                  IF i = 1 THEN Oriented(p[1])
                  ELSE LET nx == Oriented(p[i]) IN F[i-1] \o SubSeq(nx, K, Len(nx))
            IN F[Len(p)]
SumD(p) == LET F[i \in 0..Len(p)] == IF i = 0 THEN 0 ELSE F[i-1] + G[p[i][1]].d[1] IN F[Len(p)]
EndRight == /\ pc = "right"
            /\ LET r == Try(cur, dir) IN
                 /\ r.kind = "T"
                 /\ LET rext == IF path # <<>> /\ path[Len(path)][2] = "R" THEN CompS(r.e) ELSE r.e
                        np == Rev([i \in 1..Len(lpath) |-> <<lpath[i][1], Opp(lpath[i][2])>>]) \o <<<<seed, "L">>>> \o path
                    IN out' = Append(out, [s |-> Spell(np), l |-> SortSet(lext), r |-> SortSet(rext),
                                           d |-> <<G[seed].d[1] + SumD(lpath) + SumD(path)>>])
            /\ pc' = "pick" /\ path' = <<>> /\ lpath' = <<>> /\ lext' = {}
            /\ UNCHANGED <<G, avail, seed, cur, dir>> /\ UNCHANGED KV
Panic == /\ pc \in {"left", "right"} /\ Try(cur, dir).kind = "PANIC" /\ pc' = "panic"
         /\ UNCHANGED <<dir, path, lpath, lext>> /\ UNCHANGED GV /\ UNCHANGED KV
Finish == /\ pc = "pick" /\ avail = {} /\ pc' = "done"
          /\ out' = FixExts(out, 1..Len(out))
          /\ UNCHANGED <<G, avail, seed, cur, dir, path, lpath, lext>> /\ UNCHANGED KV

Next == Begin \/ KPick \/ KStep("kleft") \/ KEndLeft \/ KStep("kright") \/ KEndRight \/ KNextBucket \/ KPanic
        \/ Combine \/ Pick \/ Step("left") \/ EndLeft \/ Step("right") \/ EndRight \/ Panic \/ Finish
Spec == Init /\ [][Next]_vars

Valid == pc = "done" => GraphFails(K, Stranded, Mode, T, out) = {}
NoPanic == pc # "panic"
=============================================================================
