SPECIFICATION Spec
CONSTANTS
  MaxP = 9
  MaxS = 2
  MaxW = 5
INVARIANTS Valid WindowMin
CHECK_DEADLOCK FALSE
