SPECIFICATION Spec
CONSTANTS
  Which = "filter"
  K = 2
  P = 1
  MaxLen = 4
  Alpha = {0, 1, 3}
  Perms <- PermId
INVARIANT OK
CHECK_DEADLOCK FALSE
