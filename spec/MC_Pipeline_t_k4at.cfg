SPECIFICATION Spec
CONSTANTS
  K = 4
  Stranded = FALSE
  Thr = 1
  NB = 3
  Inputs <- In_K4_AT_10
INVARIANTS Valid NoPanic
CHECK_DEADLOCK FALSE
