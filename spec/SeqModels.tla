------------------------------ MODULE SeqModels ------------------------------
(* Concrete small-scope models of the sequence-level pipeline stages.           *)
(*   "filter"  filter_kmers' per-pass bucket loop over real observations        *)
(*             (filter.rs:183-220): for EVERY read set in scope and EVERY        *)
(*             bucket-range size, collecting the observations whose (strand-     *)
(*             normalised) k-mer falls in the pass's bucket range, sorting,      *)
(*             grouping and summarising pass by pass gives exactly the           *)
(*             reference table of Dbg (keys, extension unions, counts), with     *)
(*             keys strictly ascending - i.e. the result does not depend on the  *)
(*             number of passes.  The bucket of a k-mer is its first base here   *)
(*             (4 buckets), its first four bases in the code (256 buckets).      *)
(*   "msp"     msp_sequence (msp.rs:279-324) on concrete reads: permutation      *)
(*             scores (with the reverse-complement minimum in rc mode), the      *)
(*             scanner, pieces with their flanks, bucket = rank of the canonical *)
(*             minimizer.  For every read, permutation and mode: pieces are      *)
(*             exact substrings overlapping by k-1 and covering the read, flanks *)
(*             are the read's bases, and the <k-mer, bucket> relation is a       *)
(*             function of the (canonical) k-mer (C08) - even when the same      *)
(*             k-mer occurs twice or on both strands within the read.            *)
EXTENDS Dbg, TLC, Integers

CONSTANTS Which, K, P, MaxLen, Alpha, Perms
VARIABLES st, pc
vars == <<st, pc>>
Strings(A, lo, hi) == UNION {[1..n -> A] : n \in lo..hi}

\* ================================================================ filter
Bucket(k) == k[1]
\* observations of a read set in input order, strand-normalised as the code does (min_rc_flip; extensions flipped with it)
ObsSeq(stranded, reads) ==
  LET PerRead[r \in 0..Len(reads)] ==
        IF r = 0 THEN <<>>
        ELSE PerRead[r-1] \o [i \in 1..NKmers(reads[r], K) |->
               LET x == Sub(reads[r], i, K)
                   raw == [l |-> IF i > 1 THEN {reads[r][i-1]} ELSE {}, r |-> IF i + K <= Len(reads[r]) THEN {reads[r][i+K]} ELSE {}]
                   fl == ~stranded /\ ~LexLess(x, RC(x))
               IN [k |-> IF fl THEN RC(x) ELSE x, e |-> IF fl THEN FlipE(raw) ELSE raw]]
  IN PerRead[Len(reads)]
\* one pass: the observations whose bucket lies in [lo, hi), bucket by bucket, each bucket sorted by k-mer and grouped
PassOut(obs, lo, hi, thr) ==
  LET InRange == {i \in 1..Len(obs) : Bucket(obs[i].k) >= lo /\ Bucket(obs[i].k) < hi}
      keys == {obs[i].k : i \in InRange}
      RECURSIVE Asc(_)
      Asc(S) == IF S = {} THEN <<>> ELSE LET m == CHOOSE x \in S : \A y \in S : x = y \/ LexLess(x, y) IN <<m>> \o Asc(S \ {m})
      Row(k) == LET g == {i \in InRange : obs[i].k = k} IN
                [k |-> k, l |-> UNION {obs[i].e.l : i \in g}, r |-> UNION {obs[i].e.r : i \in g}, d |-> <<Cardinality(g)>>]
      rows == [j \in 1..Cardinality(keys) |-> Row(Asc(keys)[j])]
  IN SelectSeq(rows, LAMBDA x : x.d[1] >= thr)
RECURSIVE Passes(_, _, _, _)
Passes(obs, start, sz, thr) == IF start >= 4 THEN <<>> ELSE PassOut(obs, start, start + sz, thr) \o Passes(obs, start + sz, sz, thr)
FilterInit == \E a \in Strings(Alpha, K, MaxLen) : \E b \in Strings(Alpha, K, MaxLen) : \E sd \in BOOLEAN : \E thr \in 1..2 :
                 st = [reads |-> <<a, b>>, stranded |-> sd, thr |-> thr]
FilterOK ==
  LET obs == ObsSeq(st.stranded, st.reads)
      R == RefTable(K, st.stranded, st.thr, st.reads)
      Out(sz) == Passes(obs, 0, sz, st.thr)
  IN \A sz \in 1..5 :
       LET o == Out(sz) IN
       /\ {o[j].k : j \in 1..Len(o)} = DOMAIN R /\ Len(o) = Cardinality(DOMAIN R)
       /\ \A j \in 1..Len(o) : /\ o[j].d = R[o[j].k].d
                               /\ (IF ~st.stranded /\ Pal(o[j].k)
                                   THEN Sym([l |-> o[j].l, r |-> o[j].r]) = Sym([l |-> R[o[j].k].l, r |-> R[o[j].k].r])
                                   ELSE o[j].l = R[o[j].k].l /\ o[j].r = R[o[j].k].r)
       /\ \A j \in 1..(Len(o) - 1) : LexLess(o[j].k, o[j + 1].k)          \* ascending: the order binary searches rely on
       /\ o = Out(4)                                                       \* any pass count = one pass

\* ================================================================ msp
RankOf(x) == LET F[i \in 0..Len(x)] == IF i = 0 THEN 0 ELSE 4 * F[i-1] + x[i] IN F[Len(x)]
\* the scanner as a function of the score sequence (MspImpl's Step, run to completion): sequence of <<first k-mer start, minimizer pos>>
Better(sc, a, b) == sc[a + 1] < sc[b + 1] \/ (sc[a + 1] = sc[b + 1] /\ a > b)
FindMin(sc, lo, hi) == CHOOSE a \in lo..hi : \A b \in lo..hi : b # a => Better(sc, a, b)
RECURSIVE ScanFrom(_, _, _, _, _)
ScanFrom(sc, w, i, minp, acc) ==
  IF i + 1 > Len(sc) - w THEN acc
  ELSE LET j == i + 1  endp == j + w - 1 IN
       IF j > minp THEN LET q == FindMin(sc, j, endp) IN ScanFrom(sc, w, j, q, Append(acc, <<j, q>>))
       ELSE IF sc[endp + 1] < sc[minp + 1] THEN ScanFrom(sc, w, j, endp, Append(acc, <<j, endp>>))
       ELSE ScanFrom(sc, w, j, minp, acc)
Scan(sc, w) == LET m0 == FindMin(sc, 0, w - 1) IN ScanFrom(sc, w, 0, m0, <<<<0, m0>>>>)
\* msp_sequence: pieces [start (0-based), len, bucket, l, r]
Pieces(rd, perm, rc) ==
  LET np == Len(rd) - P + 1
      Pm(q) == Sub(rd, q + 1, P)
      sc == [q1 \in 1..np |-> IF rc THEN Min2(perm[RankOf(Pm(q1 - 1)) + 1], perm[RankOf(RC(Pm(q1 - 1))) + 1]) ELSE perm[RankOf(Pm(q1 - 1)) + 1]]
      mins == Scan(sc, K - P + 1)
      NI == Len(mins)
      Start(t) == mins[t][1]
      Ln(t) == IF t < NI THEN mins[t + 1][1] + K - 1 - Start(t) ELSE Len(rd) - Start(t)
  IN [t \in 1..NI |-> [start |-> Start(t), len |-> Ln(t), bucket |-> RankOf(Canon(Pm(mins[t][2]))),
                       l |-> IF Start(t) > 0 THEN {rd[Start(t)]} ELSE {},
                       r |-> IF Start(t) + Ln(t) < Len(rd) THEN {rd[Start(t) + Ln(t) + 1]} ELSE {}]]
MspInit == \E rd \in Strings(Alpha, K, MaxLen) : \E pm \in Perms : \E rc \in BOOLEAN : st = [rd |-> rd, perm |-> pm, rc |-> rc]
MspOK ==
  LET rd == st.rd  ps == Pieces(rd, st.perm, st.rc)  NI == Len(ps)
      Cn(x) == IF st.rc THEN Canon(x) ELSE x
      Pairs == UNION {{<<Cn(Sub(rd, ps[t].start + i, K)), ps[t].bucket>> : i \in 1..(ps[t].len - K + 1)} : t \in 1..NI}
  IN /\ ps[1].start = 0 /\ ps[NI].start + ps[NI].len = Len(rd)                       \* covers the read
     /\ \A t \in 1..(NI - 1) : ps[t + 1].start = ps[t].start + ps[t].len - (K - 1)    \* overlap exactly k-1
     /\ \A t \in 1..NI : ps[t].len >= K /\ ps[t].len <= 2 * K - P
     /\ Cardinality(Pairs) = Cardinality({x[1] : x \in Pairs})                        \* bucket is a function of the k-mer

Init == pc = "check" /\ CASE Which = "filter" -> FilterInit [] Which = "msp" -> MspInit
Next == pc = "check" /\ pc' = "done" /\ UNCHANGED st
Spec == Init /\ [][Next]_vars
OK == CASE Which = "filter" -> FilterOK [] Which = "msp" -> MspOK
=============================================================================
