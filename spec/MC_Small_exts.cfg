SPECIFICATION Spec
CONSTANTS
  Which = "exts"
  K = 1
  B = 1
  MaxLen = 1
  Alpha = {0}
INVARIANT OK
CHECK_DEADLOCK FALSE
