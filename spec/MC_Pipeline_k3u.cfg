SPECIFICATION Spec
CONSTANTS
  K = 3
  Stranded = FALSE
  Thr = 1
  NB = 2
  Inputs <- In_K3_6
INVARIANTS Valid NoPanic
CHECK_DEADLOCK FALSE
