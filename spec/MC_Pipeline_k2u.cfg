SPECIFICATION Spec
CONSTANTS
  K = 2
  Stranded = FALSE
  Thr = 1
  NB = 2
  Inputs <- In_K2_5
INVARIANTS Valid NoPanic
CHECK_DEADLOCK FALSE
