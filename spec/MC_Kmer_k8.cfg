SPECIFICATION Spec1
CONSTANTS
  W = 8
  K = 8
  Dump = FALSE
  MaxRun = 2
INVARIANT Inv
CHECK_DEADLOCK FALSE
