SPECIFICATION Spec
CONSTANTS
  K = 2
  Stranded = TRUE
  Inputs <- In_K2_5
  Holes = FALSE
  SolidMin = 2
  Dump = TRUE
INVARIANTS TypeOK NoRepeat WalkOK SpellOK HasBest Emit
PROPERTY Grows
CHECK_DEADLOCK FALSE
