SPECIFICATION Spec
CONSTANTS
  K = 2
  Stranded = FALSE
  Inputs <- In_K2_6
  Holes = TRUE
  Beam = 3
  Fixed = TRUE
INVARIANTS TypeOK NoPanic WalksOK RepeatsOK ScoresOK Sorted
CHECK_DEADLOCK FALSE
