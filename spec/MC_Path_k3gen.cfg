SPECIFICATION Spec
CONSTANTS
  K = 3
  Stranded = FALSE
  Inputs <- In_K3_6
  Holes = FALSE
  SolidMin = 1
  Dump = TRUE
INVARIANTS TypeOK NoRepeat WalkOK SpellOK HasBest Emit
PROPERTY Grows
CHECK_DEADLOCK FALSE
