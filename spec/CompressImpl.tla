---------------------------- MODULE CompressImpl ----------------------------
(* Implementation-shaped model of CompressFromHash (compression.rs): the       *)
(* `available` bookkeeping, try_extend_kmer with every branch, left-then-right *)
(* growth, sequence assembly and terminal-extension complementing.  Any still  *)
(* available k-mer may be the next seed, which covers every MPHF slot order.   *)
(* Checked against the declarative Dbg validity for EVERY read set in scope.   *)
EXTENDS ExportRules, TLC, Json

CONSTANTS K, Stranded, Mode, Thr, Inputs, Dump
VARIABLES inp, T, avail, nodes, pc, seed, cur, dir, path, lpath, lext
vars == <<inp, T, avail, nodes, pc, seed, cur, dir, path, lpath, lext>>

SideOf(k, d) == IF d = "L" THEN T[k].l ELSE T[k].r

\* try_extend_kmer (compression.rs:382-444)
Try(k, d) ==
  LET side == SideOf(k, d) IN
  IF Cardinality(side) # 1 \/ (~Stranded /\ Pal(k)) THEN [kind |-> "T", e |-> side]
  ELSE LET b  == CHOOSE x \in side : TRUE
           nx == ExtK(k, d, b)
           fl == ~Stranded /\ ~LexLess(nx, RC(nx))            \* min_rc_flip
           nk == IF fl THEN RC(nx) ELSE nx
           nd == IF fl THEN Opp(d) ELSE d
           ip == ~Stranded /\ Pal(nk)
       IN IF nk \notin avail THEN [kind |-> "T", e |-> side]   \* absent, in another shard, or already used
          ELSE LET inc == IF fl THEN d ELSE Opp(d)
                   cnt == Cardinality(SideOf(nk, inc))
                   cj  == Join(Mode, T, k, nk)
               IN IF cnt = 0 /\ ~ip THEN [kind |-> "PANIC", e |-> side]
                  ELSE IF cj /\ cnt = 1 /\ ~ip THEN [kind |-> "U", k |-> nk, d |-> nd]
                  ELSE [kind |-> "T", e |-> side]

Init == /\ inp \in Inputs
        /\ T = LET R == RefTableM(K, Stranded, Thr, inp, Mode) IN
               IF Thr > 1 THEN Prune(Stranded, R, DOMAIN R) ELSE R
        /\ avail = DOMAIN RefTableM(K, Stranded, Thr, inp, Mode)
        /\ nodes = {} /\ pc = "pick" /\ seed = <<>> /\ cur = <<>> /\ dir = "L"
        /\ path = <<>> /\ lpath = <<>> /\ lext = {}

Pick == /\ pc = "pick" /\ avail # {}
        /\ \E s \in avail : seed' = s /\ cur' = s /\ avail' = avail \ {s}
        /\ dir' = "L" /\ path' = <<>> /\ pc' = "left"
        /\ UNCHANGED <<inp, T, nodes, lpath, lext>>

Step(phase) ==
        /\ pc = phase
        /\ LET r == Try(cur, dir) IN
             /\ r.kind = "U"
             /\ path' = Append(path, <<r.k, r.d>>) /\ avail' = avail \ {r.k} /\ cur' = r.k /\ dir' = r.d
        /\ UNCHANGED <<inp, T, nodes, pc, seed, lpath, lext>>

EndLeft == /\ pc = "left"
           /\ LET r == Try(cur, dir) IN
                /\ r.kind = "T"
                /\ lext' = (IF path # <<>> /\ path[Len(path)][2] = "R" THEN CompS(r.e) ELSE r.e)
           /\ lpath' = path /\ path' = <<>> /\ cur' = seed /\ dir' = "R" /\ pc' = "right"
           /\ UNCHANGED <<inp, T, avail, nodes, seed>>

LeftBases  == [i \in 1..Len(lpath) |-> LET km == IF lpath[i][2] = "L" THEN lpath[i][1] ELSE RC(lpath[i][1]) IN km[1]]
RightBases == [i \in 1..Len(path)  |-> LET km == IF path[i][2] = "L" THEN RC(path[i][1]) ELSE path[i][1] IN km[K]]
Fold(p) == IF Mode = "colour" THEN T[seed].d
           ELSE LET F[i \in 0..Len(p)] == IF i = 0 THEN 0 ELSE F[i-1] + T[p[i][1]].d[1] IN <<F[Len(p)]>>

EndRight == /\ pc = "right"
            /\ LET r == Try(cur, dir) IN
                 /\ r.kind = "T"
                 /\ LET rext == IF path # <<>> /\ path[Len(path)][2] = "L" THEN CompS(r.e) ELSE r.e
                        sq == Rev(LeftBases) \o seed \o RightBases
                        dd == IF Mode = "colour" THEN T[seed].d
                              ELSE <<T[seed].d[1] + Fold(lpath)[1] + Fold(path)[1]>>
                    IN nodes' = nodes \cup {[s |-> sq, l |-> SortSet(lext), r |-> SortSet(rext), d |-> dd]}
            /\ pc' = "pick" /\ path' = <<>> /\ lpath' = <<>> /\ lext' = {}
            /\ UNCHANGED <<inp, T, avail, seed, cur, dir>>

Panic == /\ pc \in {"left", "right"} /\ Try(cur, dir).kind = "PANIC" /\ pc' = "panic"
         /\ UNCHANGED <<inp, T, avail, nodes, seed, cur, dir, path, lpath, lext>>
Finish == /\ pc = "pick" /\ avail = {} /\ pc' = "done"
          /\ UNCHANGED <<inp, T, avail, nodes, seed, cur, dir, path, lpath, lext>>

Next == Pick \/ Step("left") \/ EndLeft \/ Step("right") \/ EndRight \/ Panic \/ Finish
Spec == Init /\ [][Next]_vars
\* liveness: the walk terminates on every in-scope input
FairSpec == Spec /\ WF_vars(Next)
Terminates == <>(pc \in {"done", "panic"})

NodeSeq == SetToSeq(nodes)
Valid == pc = "done" => GraphFails(K, Stranded, Mode, T, NodeSeq) = {}
NoPanic == pc # "panic"
AvailDisjoint == \A n \in nodes : \A i \in 1..NK(K, n) : C(Stranded, At(K, n, i)) \notin avail
\* every k-mer leaves `available` exactly once
AvailShrinks == [][avail' \subseteq avail]_vars

\* on a closed table the resolvable adjacencies of the result are exactly the observed (K+1)-mers, symmetrically (C03)
LinksOK == (pc = "done" /\ Closed(K, Stranded, T)) =>
             /\ Links(K, Stranded, NodeSeq) = ObsLinks(K, Stranded, inp, DOMAIN T)
             /\ SymmetricGraph(K, Stranded, NodeSeq)

\* the exports of the finished graph (C20): the GFA rule writes every adjacency exactly once (palindromic nodes apart) and
\* nothing else; the JSON links array is well formed and lists every right-going edge once
ExportOK == pc = "done" =>
  LET g == NodeSeq
      lines == GfaAll(K, Stranded, g, TRUE)
      J[n \in 0..Len(g)] == IF n = 0 THEN <<<<>>, FALSE>>
                            ELSE LET v == JsonVisit(K, Stranded, g, n, J[n - 1][2], TRUE) IN <<J[n - 1][1] \o v[1], v[2]>>
      toks == J[Len(g)][1]
  IN /\ GfaNoInvented(K, Stranded, g, lines) /\ GfaComplete(K, Stranded, g, lines) /\ GfaOnce(K, Stranded, g, lines)
     /\ WellFormedArray(toks) /\ JsonLinksExact(K, Stranded, g, toks)

TableRows == LET ks == SetToSeq(DOMAIN T) IN
             [i \in 1..Len(ks) |-> [k |-> ks[i], l |-> SortSet(T[ks[i]].l), r |-> SortSet(T[ks[i]].r), d |-> T[ks[i]].d]]
Emit == (Dump /\ pc = "done") =>
          PrintT(ToJson([tag |-> "REPLAY", K |-> K, st |-> Stranded, mode |-> Mode, inp |-> inp,
                         table |-> TableRows, nodes |-> NodeSeq]))
=============================================================================
