SPECIFICATION FairSpec
CONSTANTS
  K = 2
  Stranded = FALSE
  Inputs <- In_K2_5
  Holes = FALSE
  FixHairpin = TRUE
  FixComma = TRUE
  Dump = FALSE
PROPERTY Terminates
CHECK_DEADLOCK FALSE
