SPECIFICATION Spec
CONSTANTS
  K = 3
  Stranded = FALSE
  Mode = "sum"
  Inputs <- In_K3_6
  Rounds = 2
INVARIANTS Valid NoPanic NoDangling
CHECK_DEADLOCK FALSE
