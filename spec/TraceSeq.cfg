SPECIFICATION Spec
POSTCONDITION Complete
CHECK_DEADLOCK FALSE
