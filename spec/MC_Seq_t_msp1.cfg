SPECIFICATION Spec
CONSTANTS
  Which = "msp"
  K = 3
  P = 1
  MaxLen = 7
  Alpha = {0, 1, 2, 3}
  Perms <- AllPerms1
INVARIANT OK
CHECK_DEADLOCK FALSE
