----------------------------- MODULE MC_Pipeline -----------------------------
EXTENDS Pipeline
Strings(A, lo, hi) == UNION {[1..n -> A] : n \in lo..hi}
One(A, lo, hi) == {<<s>> : s \in Strings(A, lo, hi)}
ACGT == 0..3
AT == {0, 3}
In_K3_6 == One(ACGT, 3, 6)
In_K3_AT_10 == One(AT, 3, 10)
In_K2_5 == One(ACGT, 2, 5)
In_K4_AT_10 == One(AT, 4, 8)
In_K3_7 == One(ACGT, 3, 7)
\* threshold 2 needs coverage: each read twice
Twice(S) == {<<x[1], x[1]>> : x \in S}
In_K3_AT_10x2 == Twice(One(AT, 3, 10)) \cup {<<s, t>> : s \in Strings(AT, 3, 6), t \in Strings(AT, 3, 6)}
=============================================================================
