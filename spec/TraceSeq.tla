------------------------------ MODULE TraceSeq ------------------------------
(* Trace specification of the sequence-level domains:                          *)
(*   scan    C07  minimizer partition (Scanner::scan, simple_scan)             *)
(*   msp     C08  shard assignment (msp_sequence)                              *)
(*   filter  C05  k-mer counting / filtering for any number of bucket passes   *)
(* The scan event carries the score of every p-mer position, so the oracle     *)
(* needs no model of the score function; tie-breaking is left free.            *)
EXTENDS Dna, Integers, Json, IOUtils, TLC

Rec == ndJsonDeserialize(IOEnv.TRACE)
VARIABLE l

\* base-4 rank of a p-mer (p <= 8, fits easily)
RankOf(x) == LET F[i \in 0..Len(x)] == IF i = 0 THEN 0 ELSE 4 * F[i-1] + x[i] IN F[Len(x)]

\* ---------------------------------------------------------------- scan (C07); positions 0-based as logged
ScanFails(e) ==
  IF e.panic # "" THEN {"PANIC"} ELSE
  LET k == e.k  p == e.p  m == Len(e.seq)  NI == Len(e.iv)
      St(t) == e.iv[t].start   Ln(t) == e.iv[t].len
      full == e.fn = "scanner"
      MP(t) == e.iv[t].mpos
      Sc(q) == e.sc[q + 1]                                                  \* score of the p-mer at position q
      S1 == NI >= 1 /\ St(1) = 0 /\ St(NI) + Ln(NI) = m                     \* covers the sequence
      S2 == \A t \in 1..(NI - 1) : St(t + 1) = St(t) + Ln(t) - (k - 1)      \* start order, overlap exactly k-1
      S3 == \A t \in 1..NI : Ln(t) >= k /\ Ln(t) <= 2 * k - p
      S4 == full => \A t \in 1..NI : MP(t) >= 0 /\ MP(t) + p <= m /\ e.iv[t].min = Sub(e.seq, MP(t) + 1, p)
      S5 == full => \A t \in 1..NI : MP(t) >= St(t) + Ln(t) - k /\ MP(t) + p <= St(t) + k     \* inside every k-mer
      S6 == full => \A t \in 1..NI : \A q \in St(t)..(St(t) + Ln(t) - p) : Sc(MP(t)) <= Sc(q)  \* minimum score
      S7 == full => \A t \in 1..(NI - 1) :                                                      \* no premature end
                      (St(t) + Ln(t) - k + 1 > MP(t)) \/ Sc(St(t) + Ln(t) - p + 1) < Sc(MP(t))
      \* simple_scan reports no minimizer position: its bucket must be the canonical rank of a p-mer of the interval
      \* that lies inside every k-mer of the interval and has the minimum score
      S8 == full \/ \A t \in 1..NI :
              /\ e.iv[t].end = St(t) + Ln(t) /\ e.iv[t].range = <<St(t), St(t) + Ln(t)>> /\ ~e.iv[t].is_empty
              /\ \E q \in (St(t) + Ln(t) - k)..(St(t) + k - p) :
                   /\ q >= St(t)
                   /\ e.iv[t].bucket = RankOf(Canon(Sub(e.seq, q + 1, p)))
                   /\ \A q2 \in St(t)..(St(t) + Ln(t) - p) : Sc(q) <= Sc(q2)
      S9 == (full /\ p <= 8) => \A t \in 1..NI : e.iv[t].bucket = RankOf(Canon(e.iv[t].min))
      shape == S1 /\ S3
  IN {c \in {"S1", "S2", "S3", "S4", "S5", "S6", "S7", "S8", "S9"} :
        ~(CASE c = "S1" -> S1 [] c = "S2" -> (S1 => S2) [] c = "S3" -> S3 [] c = "S4" -> S4
            [] c = "S5" -> (S4 => S5) [] c = "S6" -> ((shape /\ S4) => S6) [] c = "S7" -> ((shape /\ S2 /\ S4) => S7)
            [] c = "S8" -> (shape => S8) [] c = "S9" -> (S4 => S9))}

\* ---------------------------------------------------------------- msp (C08)
MspFails(e) ==
  IF e.panic # "" THEN {"PANIC"} ELSE
  LET k == e.k  NR == Len(e.reads)
      Cn(x) == IF e.rc THEN Canon(x) ELSE x
      P(r) == e.pieces[r]
      Rd(r) == e.reads[r]
      StartOf(r) == [j \in 1..Len(P(r)) |-> LET F[i \in 1..j] == IF i = 1 THEN 0 ELSE F[i-1] + Len(P(r)[i-1].s) - (k - 1) IN F[j]]
      M0 == Len(e.pieces) = NR
      M1 == \A r \in 1..NR : Len(Rd(r)) < k => P(r) = <<>>
      M2 == \A r \in 1..NR : \A j \in 1..Len(P(r)) :
              LET st == StartOf(r)[j]  ln == Len(P(r)[j].s) IN
              /\ ln >= k /\ st + ln <= Len(Rd(r)) /\ P(r)[j].s = Sub(Rd(r), st + 1, ln)                \* exact substring
              /\ SetOf(P(r)[j].l) = (IF st > 0 THEN {Rd(r)[st]} ELSE {})                               \* true flanks, none at a read end
              /\ SetOf(P(r)[j].r) = (IF st + ln < Len(Rd(r)) THEN {Rd(r)[st + ln + 1]} ELSE {})
      M3 == \A r \in 1..NR : Len(Rd(r)) >= k =>                                                         \* every k-mer of the read is in a piece
              (P(r) # <<>> /\ StartOf(r)[Len(P(r))] + Len(P(r)[Len(P(r))].s) = Len(Rd(r)))
      Pairs == UNION {UNION {{<<Cn(Sub(P(r)[j].s, i, k)), P(r)[j].bucket>> : i \in 1..(Len(P(r)[j].s) - k + 1)} :
                              j \in 1..Len(P(r))} : r \in 1..NR}
      M4 == Cardinality(Pairs) = Cardinality({x[1] : x \in Pairs})                                      \* bucket is a function of the k-mer
  IN {c \in {"M0", "M1", "M2", "M3", "M4"} :
        ~(CASE c = "M0" -> M0 [] c = "M1" -> (M0 => M1) [] c = "M2" -> (M0 => M2) [] c = "M3" -> ((M0 /\ M2) => M3) [] c = "M4" -> (M0 => M4))}

\* ---------------------------------------------------------------- filter (C05)
\* pass planning of filter_kmers: sz = 256 \div slices + 1, ranges [i*sz, (i+1)*sz)
PlanOK(slices, passes) ==
  LET sz == (256 \div slices) + 1  np == (256 + sz - 1) \div sz IN
  /\ Len(passes) = np
  /\ \A i \in 1..np : passes[i] = <<i - 1, (i - 1) * sz, i * sz>>

FilterFails(e) ==
  IF e.panic # "" THEN {"PANIC"} ELSE
  LET K == e.K  st == e.st  NR == Len(e.reads)
      Cn(k) == IF st THEN k ELSE Canon(k)
      PalK(k) == ~st /\ k = RC(k)
      S(r) == IF "hom" \in DOMAIN e.reads[r] THEN [i \in 1..e.reads[r].hom[2] |-> e.reads[r].hom[1]] ELSE e.reads[r].s
      ObsIx == UNION {{<<r, i>> : i \in 1..NKmers(S(r), K)} : r \in 1..NR}
      W(o) == Sub(S(o[1]), o[2], K)
      Raw(o) == [l |-> IF o[2] = 1 THEN SetOf(e.reads[o[1]].l) ELSE {S(o[1])[o[2] - 1]},
                 r |-> IF o[2] + K - 1 = Len(S(o[1])) THEN SetOf(e.reads[o[1]].r) ELSE {S(o[1])[o[2] + K]}]
      OEx(o) == IF ~st /\ ~LexLess(W(o), RC(W(o))) THEN FlipE(Raw(o)) ELSE Raw(o)
      KeyOf == [o \in ObsIx |-> Cn(W(o))]
      AllKeys == {KeyOf[o] : o \in ObsIx}
      Grp(k) == {o \in ObsIx : KeyOf[o] = k}
      RefE(k) == [l |-> UNION {OEx(o).l : o \in Grp(k)}, r |-> UNION {OEx(o).r : o \in Grp(k)}]
      Cnt(k) == Cardinality(Grp(k))
      \* what the summarizer accepts: CountFilter compares its SATURATED 16-bit count with the threshold, the others the
      \* number of observations (thresholds beyond 10^9 are logged as 10^9: no count in a trace reaches that)
      ValidKeys == {k \in AllKeys : (IF e.mode = 0 THEN Min2(Cnt(k), 65535) ELSE Cnt(k)) >= e.min}
      \* labels of the observations of k in input order: reads ascending, positions ascending
      InOrder(k) == LET ord == SortSet({(o[1] * 100000) + o[2] : o \in Grp(k)}) IN
                    [i \in 1..Len(ord) |-> e.reads[ord[i] \div 100000].label]
      RefD(k) == CASE e.mode = 0 -> <<Min2(Cnt(k), 65535)>>
                   [] e.mode = 1 -> SortSet({e.reads[o[1]].label : o \in Grp(k)})
                   [] OTHER -> InOrder(k)
      Rows == SetOf(e.table)
      T1 == {t.k : t \in Rows} = ValidKeys /\ Len(e.table) = Cardinality(ValidKeys) /\ e.len = Len(e.table)   \* exactly the accepted keys, once each
      T2 == \A t \in Rows : LET E == [l |-> SetOf(t.l), r |-> SetOf(t.r)] IN
                            IF PalK(t.k) THEN Sym(E) = Sym(RefE(t.k)) ELSE E = RefE(t.k)
      T3 == \A t \in Rows : t.d = RefD(t.k)
      T4 == IF e.report_all THEN /\ SetOf(e.all) = AllKeys /\ Len(e.all) = Cardinality(AllKeys)
                                 /\ \A i \in 1..(Len(e.all) - 1) : LexLess(e.all[i], e.all[i + 1])
            ELSE e.all = <<>>
      T5 == \A i \in 1..Len(e.gets) : /\ e.gets[i].found = (e.gets[i].k \in ValidKeys)
                                      /\ (e.gets[i].found => (e.gets[i].id >= 0 /\ e.gets[i].id < Len(e.table) /\ e.table[e.gets[i].id + 1].k = e.gets[i].k))
      T6 == \A t \in Rows : t.k = Cn(t.k)
      \* the requested plan really ran: passes tile 0..255 in ascending contiguous ranges
      \* (the exact arithmetic of the plan - PlanOK - is the implementation's business; the model FilterPlan covers it)
      T7 == /\ Len(e.passes) >= 1 /\ e.passes[1][2] = 0 /\ e.passes[Len(e.passes)][3] >= 256
            /\ \A i \in 1..Len(e.passes) : e.passes[i][1] = i - 1 /\ e.passes[i][2] < e.passes[i][3]
            /\ \A i \in 1..(Len(e.passes) - 1) : e.passes[i + 1][2] = e.passes[i][3]
  IN {c \in {"T1", "T2", "T3", "T4", "T5", "T6", "T7"} :
        ~(CASE c = "T1" -> T1 [] c = "T2" -> (T1 => T2) [] c = "T3" -> (T1 => T3) [] c = "T4" -> T4
            [] c = "T5" -> T5 [] c = "T6" -> T6 [] c = "T7" -> T7)}

Fails(e) ==
  CASE e.op = "scan"    -> ScanFails(e)
    [] e.op = "msp"     -> MspFails(e)
    [] e.op = "filter"  -> FilterFails(e)
    [] e.op = "timeout" -> {"TIMEOUT"}
    [] OTHER -> {"UNKNOWN-OP"}

Init == l = 1
Next == /\ l <= Len(Rec)
        /\ l' = l + 1
        /\ LET f == Fails(Rec[l]) IN
             IF f = {} THEN TRUE ELSE PrintT(<<"FAIL", l, Rec[l].case, Rec[l].op, f>>)
Spec == Init /\ [][Next]_l
Complete == PrintT(<<"DONE", TLCGet("stats").diameter - 1, Len(Rec)>>)
=============================================================================
