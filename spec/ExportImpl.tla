----------------------------- MODULE ExportImpl -----------------------------
(* write_gfa / to_json_rest as a state machine: one action per node visited (C20).
   The graphs are the one-k-mer-per-node graphs of every read set in scope - they contain every kind of adjacency
   (ordinary, strand-flipping, hairpins on either side, circular self-links, palindromic nodes) - in two node orders,
   optionally with one k-mer removed so that extensions dangle.  Compressed graphs (multi-k-mer nodes) get the same
   predicates as invariants of CompressImpl (ExportOK there). *)
EXTENDS ExportRules, TLC, Json
CONSTANTS K, Stranded, Inputs, Holes, FixHairpin, FixComma, Dump
VARIABLES inp, g, i, phase, lines, toks, wrote
vars == <<inp, g, i, phase, lines, toks, wrote>>

RECURSIVE LexSeq(_)
LexSeq(S) == IF S = {} THEN <<>> ELSE LET m == CHOOSE x \in S : \A y \in S : y = x \/ LexLess(x, y) IN <<m>> \o LexSeq(S \ {m})
OnePerKmer(T, keys) == [j \in 1..Len(keys) |-> [s |-> keys[j], l |-> SortSet(T[keys[j]].l), r |-> SortSet(T[keys[j]].r), d |-> T[keys[j]].d]]

\* Init only picks the reads; building the graph is an action of its own, so that TLC's workers share that work
Init == /\ inp \in Inputs
        /\ g = <<>> /\ i = 1 /\ phase = "build" /\ lines = {} /\ toks = <<>> /\ wrote = FALSE
Build == /\ phase = "build"
         /\ \E desc \in BOOLEAN : \E hole \in (IF Holes THEN 0..3 ELSE {0}) :
              LET T == RefTable(K, Stranded, 1, inp)
                  ks == LexSeq(DOMAIN T)
                  kept == IF hole = 0 \/ hole > Len(ks) THEN ks ELSE SelectSeq(ks, LAMBDA x : x # ks[hole])
              IN g' = OnePerKmer(T, IF desc THEN Rev(kept) ELSE kept)
         /\ phase' = "gfa"
         /\ UNCHANGED <<inp, i, lines, toks, wrote>>

GfaVisit == /\ phase = "gfa" /\ i <= Len(g)
            /\ lines' = lines \cup GfaOfNode(K, Stranded, g, i, FixHairpin)
            /\ i' = i + 1
            /\ UNCHANGED <<inp, g, phase, toks, wrote>>
GfaEnd == /\ phase = "gfa" /\ i > Len(g)
          /\ phase' = "json" /\ i' = 1
          /\ UNCHANGED <<inp, g, lines, toks, wrote>>
JsonStep == /\ phase = "json" /\ i <= Len(g)
            /\ LET v == JsonVisit(K, Stranded, g, i, wrote, FixComma) IN toks' = toks \o v[1] /\ wrote' = v[2]
            /\ i' = i + 1
            /\ UNCHANGED <<inp, g, phase, lines>>
JsonEnd == /\ phase = "json" /\ i > Len(g)
           /\ phase' = "done"
           /\ UNCHANGED <<inp, g, i, lines, toks, wrote>>
Next == Build \/ GfaVisit \/ GfaEnd \/ JsonStep \/ JsonEnd
Spec == Init /\ [][Next]_vars
FairSpec == Spec /\ WF_vars(Next)
Terminates == <>(phase = "done")

\* ---- C20
\* while writing: nothing invented, nothing twice (palindromic nodes apart), and every adjacency between two nodes
\* that have BOTH been visited is already there
Visited(a) == a[1][1] < i /\ a[2][1] < i
GfaSafe == /\ GfaNoInvented(K, Stranded, g, lines)
           /\ GfaOnce(K, Stranded, g, lines)
           /\ (phase = "gfa" => \A a \in AdjOf(K, Stranded, g) : Visited(a) => GfaCount(K, Stranded, g, lines, a) >= 1)
GfaDone == phase \in {"json", "done"} => GfaComplete(K, Stranded, g, lines)
JsonDone == phase = "done" => WellFormedArray(toks) /\ JsonLinksExact(K, Stranded, g, toks)
\* the separators written so far never make the array unrepairable: no leading comma, no doubled comma
JsonSafe == /\ (toks # <<>> => IsLinkTok(toks[1]))
            /\ \A j \in 1..(Len(toks) - 1) : ~(toks[j] = SepTok /\ toks[j + 1] = SepTok)
TypeOK == phase \in {"build", "gfa", "json", "done"} /\ i \in 1..(Len(g) + 1) /\ wrote \in BOOLEAN
\* spec -> code: every graph of the model is handed to the real exports (vh replay graph, tag REPLAY-EXPORT)
Emit == (Dump /\ phase = "done") =>
          PrintT(ToJson([tag |-> "REPLAY-EXPORT", K |-> K, st |-> Stranded, mode |-> "sum", inp |-> inp, nodes |-> g]))
=============================================================================
