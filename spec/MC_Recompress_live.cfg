SPECIFICATION FairSpec
CONSTANTS
  K = 2
  Stranded = FALSE
  Mode = "sum"
  Inputs <- In_K2_5
  Rounds = 1
PROPERTY Terminates
CHECK_DEADLOCK FALSE
