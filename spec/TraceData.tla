------------------------------ MODULE TraceData ------------------------------
(* Trace specification of the data-type domains.  The abstract state of every   *)
(* container is the plain string (sequence over 0..3) it denotes; every public  *)
(* operation is the corresponding string operation; every observer must return  *)
(* what the string returns.  Register machines: several values built by         *)
(* different routes are compared with ==, cmp and hash after every step.        *)
(*   kmer    C10 C11 C12      string  C14       slice / hamming  C15            *)
(*   lmer    C17              rcx / exts  C12   extract  C13     ascii  C16     *)
EXTENDS Dna, Integers, Json, IOUtils, TLC

Rec == ndJsonDeserialize(IOEnv.TRACE)

VARIABLES l, regs, meta
vars == <<l, regs, meta>>

ByteToBase(c) == CASE c \in {65, 97} -> 0 [] c \in {67, 99} -> 1 [] c \in {71, 103} -> 2 [] c \in {84, 116} -> 3 [] OTHER -> 0
IsAcgt(c) == c \in {65, 97, 67, 99, 71, 103, 84, 116}
MapBases(codes) == [i \in 1..Len(codes) |-> ByteToBase(codes[i])]
Zeros(n) == [i \in 1..n |-> 0]
NDiff(a, b) == Cardinality({i \in 1..Len(a) : a[i] # b[i]})
CountIn(x, S) == Cardinality({i \in 1..Len(x) : x[i] \in S})
AsciiCodes(x) == [i \in 1..Len(x) |-> AsciiCode(x[i])]
WriteRun(x, p, run) == [i \in 1..Len(x) |-> IF i > p /\ i <= p + Len(run) THEN run[i - p] ELSE x[i]]
IsDna(x) == \A i \in 1..Len(x) : x[i] \in Base

\* ---------------------------------------------------------------- k-mers (C10 C11 C12)
KApply(K, e, x) ==
  LET a == e.args IN
  CASE e.name = "from_bytes"   -> Sub(a[1], 1, K)
    [] e.name = "from_ascii"   -> Sub(MapBases(a[1]), 1, K)
    [] e.name = "from_rank"    -> Zeros(K - Len(a[1])) \o a[1]          \* K > 32: the rank fills the last 32 bases
    [] e.name = "empty"        -> Zeros(K)
    [] e.name = "copy"         -> x
    [] e.name = "set"          -> [x EXCEPT ![a[1] + 1] = a[2]]
    [] e.name = "set_slice"    -> WriteRun(x, a[1], a[2])
    [] e.name = "extend_left"  -> Pred(x, a[1])
    [] e.name = "extend_right" -> Succ(x, a[1])
    [] e.name = "rc"           -> RC(x)
    [] e.name = "min_rc"       -> Canon(x)
    [] e.name = "window"       -> Sub(a[1], a[2] + 1, K)
    [] e.name = "window_ascii" -> Sub(MapBases(a[1]), a[2] + 1, K)
    [] e.name = "get_extension" ->
         LET side == IF a[3] = "L" THEN SetOf(a[1]) ELSE SetOf(a[2])
             b == SortSet(side)[a[4] + 1]
         IN IF a[3] = "L" THEN Pred(x, b) ELSE Succ(x, b)
    [] OTHER -> <<"unknown-op">>

KopFails(e) ==
  IF e.panic # "" THEN {"PANIC"} ELSE
  LET K == meta.K  o == e.obs
      nv == KApply(K, e, regs[e.src + 1])
      nr == [regs EXCEPT ![e.dst + 1] = nv]
      NR == Len(nr)
      K1 == o.val = nv
      K2 == /\ o.len = K /\ o.empty = (K = 0) /\ o.iter = nv
            /\ (o.rank = <<>> \/ o.rank = nv)
            /\ o.at = CountIn(nv, {0, 3}) /\ o.gc = CountIn(nv, {1, 2})
            /\ o.text = Ascii(nv) /\ o.dbg = Ascii(nv)
            /\ \A j \in 1..NR : o.rel[j].ham = NDiff(nv, nr[j])
      K3 == \A j \in 1..NR :
              /\ o.rel[j].eq = (nv = nr[j]) /\ o.rel[j].ne = (nv # nr[j])
              /\ o.rel[j].ord = Cmp(nv, nr[j]) /\ o.rel[j].pord = Cmp(nv, nr[j]) /\ o.rel[j].lt = LexLess(nv, nr[j])
              /\ ((nv = nr[j]) => o.rel[j].heq)
      K4 == /\ o.pal = (nv = RC(nv)) /\ o.canon = Canon(nv) /\ o.flip = ~LexLess(nv, RC(nv))
  IN {c \in {"K1", "K2", "K3", "K4"} : ~(CASE c = "K1" -> K1 [] c = "K2" -> K2 [] c = "K3" -> K3 [] c = "K4" -> K4)}

\* sort / dedup / binary search / hash set / perfect-hash lookup agree with the same operations on strings
KpoolFails(e) ==
  IF e.panic # "" THEN {"PANIC"} ELSE
  LET inp == e.input  N == Len(inp)  S == SetOf(inp)
      CountOf(q, x) == Cardinality({i \in 1..Len(q) : q[i] = x})
      IndexIn(q, x) == IF \E i \in 1..Len(q) : q[i] = x THEN (CHOOSE i \in 1..Len(q) : q[i] = x) - 1 ELSE -1
      K5 == /\ Len(e.sorted) = N /\ \A x \in S : CountOf(e.sorted, x) = CountOf(inp, x)
            /\ \A i \in 1..(N - 1) : ~LexLess(e.sorted[i + 1], e.sorted[i])
            /\ SetOf(e.dedup) = S /\ Len(e.dedup) = Cardinality(S)
            /\ \A i \in 1..(Len(e.dedup) - 1) : LexLess(e.dedup[i], e.dedup[i + 1])
            /\ e.nset = Cardinality(S)
            /\ \A i \in 1..N : e.found[i] = IndexIn(e.dedup, inp[i]) /\ e.looked[i] = IndexIn(e.dedup, inp[i])
  IN IF K5 THEN {} ELSE {"K5"}

\* ---------------------------------------------------------------- growable strings (C14)
UnpackBytes(bytes, n) == [i \in 1..n |-> (bytes[(((i - 1) * 2) \div 8) + 1] \div (2 ^ (((i - 1) * 2) % 8))) % 4]
SApply(e, x) ==
  LET a == e.args IN
  CASE e.name = "new"        -> <<>>
    [] e.name = "blank"      -> Zeros(a[1])
    [] e.name = "from_bytes" -> a[1]
    [] e.name = "from_ascii" -> MapBases(a[1])
    [] e.name = "push"       -> Append(x, a[1])
    [] e.name = "extend"     -> x \o a[1]
    [] e.name = "push_bytes" -> x \o UnpackBytes(a[1], a[2])
    [] e.name = "set"        -> [x EXCEPT ![a[1] + 1] = a[2]]
    [] e.name = "clear"      -> <<>>
    [] e.name = "copy"       -> x
    [] e.name = "rc"         -> RC(x)
    [] e.name = "reverse"    -> Rev(x)
    [] e.name = "sub"        -> Seg(x, a[1] + 1, a[2])
    [] OTHER -> <<"unknown-op">>

SopFails(e) ==
  IF e.panic # "" THEN {"PANIC"} ELSE
  LET o == e.obs
      nv == SApply(e, regs[e.src + 1])
      nr == [regs EXCEPT ![e.dst + 1] = nv]
      NR == Len(nr)
      S1 == /\ o.len = Len(nv) /\ o.mlen = Len(nv) /\ o.empty = (Len(nv) = 0)
            /\ o.bytes = nv /\ o.iter = nv /\ o.into_iter = nv /\ o.to_bytes = nv
            /\ o.ascii = AsciiCodes(nv) /\ o.display = Ascii(nv) /\ o.dbg = Ascii(nv)
      S2 == \A j \in 1..NR :
              /\ o.rel[j].eq = (nv = nr[j]) /\ o.rel[j].ord = Cmp(nv, nr[j])
              /\ ((nv = nr[j]) => o.rel[j].heq)
              /\ (IF Len(nv) = Len(nr[j]) THEN o.rel[j].nd = NDiff(nv, nr[j]) /\ o.rel[j].hd = NDiff(nv, nr[j])
                  ELSE o.rel[j].nd = -1)
  IN {c \in {"S1", "S2"} : ~(CASE c = "S1" -> S1 [] c = "S2" -> S2)}

PsetFails(e) ==
  IF e.panic # "" THEN {"PANIC"} ELSE
  LET N == Len(e.seqs)
      S3 == /\ e.got = e.seqs /\ e.n = N /\ e.is_empty = (N = 0) /\ e.lens_after = [i \in 1..N |-> i]
            /\ \A i \in 1..Len(e.subs) : LET t == e.subs[i] IN t[4] = Seg(e.seqs[t[1] + 1], t[2] + 1, t[3])
  IN IF S3 THEN {} ELSE {"S3"}

\* ---------------------------------------------------------------- slices (C15)
VApply(a, base, cur) ==
  CASE a[1] = "slice"  -> Seg(IF meta.first THEN base ELSE cur, a[2] + 1, a[3])
    [] a[1] = "prefix" -> Seg(base, 1, a[2])
    [] a[1] = "suffix" -> Seg(base, Len(base) - a[2] + 1, Len(base))
    [] a[1] = "rc"     -> RC(cur)
    [] OTHER -> <<"unknown-op">>

ViewFails(e) ==
  IF e.panic # "" THEN {"PANIC"} ELSE
  LET o == e.obs  v == VApply(e.args, meta.base, regs[1])
      W1 == /\ o.len = Len(v) /\ o.empty = (Len(v) = 0) /\ o.get = v /\ o.bytes = v /\ o.iter = v /\ o.into_iter = v
            /\ o.ascii = AsciiCodes(v) /\ o.text = Ascii(v) /\ o.display = Ascii(v) /\ o.owned = v
      W2 == Len(v) < 256 => o.dbg = Ascii(v)              \* the >= 256 summary form is documented and not constrained
      W3 == \A i \in 1..Len(o.kmers) : o.kmers[i][2] = Sub(v, o.kmers[i][1] + 1, Len(o.kmers[i][2]))
      W4 == /\ o.self_eq /\ (meta.first \/ (o.eq_prev = (regs[1] = v)))
            \* a sibling view of the same backing string (same length and orientation, other offset): equal iff same bases
            /\ o.sib => (o.sib_eq[1] = (o.sib_bytes = v) /\ o.sib_eq[2] = (o.sib_bytes = v))
      \* the owned copy IS that string: equal (and hashing equal) to the same bases built by from_bytes, and it keeps behaving
      \* like it when it grows
      W5 == o.owned_eq /\ o.owned_hash_eq /\ o.owned_push = v \o <<2, 1, 3>>
  IN {c \in {"W1", "W2", "W3", "W4", "W5"} :
        ~(CASE c = "W1" -> W1 [] c = "W2" -> W2 [] c = "W3" -> W3 [] c = "W4" -> W4 [] c = "W5" -> W5)}

HammingFails(e) ==
  IF e.panic # "" THEN {"PANIC"} ELSE
  LET d == NDiff(e.a, e.b)
      H1 == e.seen_a_ok /\ e.seen_b_ok /\ e.dist = d /\ e.dist_rev = d /\ e.eq = (e.a = e.b)
  IN IF H1 THEN {} ELSE {"H1"}

\* ---------------------------------------------------------------- fixed-size strings (C17)
LApply(e, x) ==
  LET a == e.args IN
  CASE e.name = "new"        -> Zeros(a[1])
    [] e.name = "from_slice" -> a[1]
    [] e.name = "set"        -> [x EXCEPT ![a[1] + 1] = a[2]]
    [] e.name = "set_slice"  -> WriteRun(x, a[1], a[2])
    [] e.name = "rc"         -> RC(x)
    [] e.name = "copy"       -> x
    [] OTHER -> <<"unknown-op">>

LopFails(e) ==
  IF e.panic # "" THEN {"PANIC"} ELSE
  LET o == e.obs
      nv == LApply(e, regs[e.src + 1])
      nr == [regs EXCEPT ![e.dst + 1] = nv]
      L1 == o.len = Len(nv) /\ o.empty = (Len(nv) = 0) /\ o.bytes = nv /\ o.dbg = Ascii(nv)
      L2 == \A j \in 1..Len(nr) : o.rel[j].eq = (nv = nr[j]) /\ ((nv = nr[j]) => o.rel[j].heq)
      L3 == /\ \A i \in 1..Len(o.kmers) : o.kmers[i][3] = Sub(nv, o.kmers[i][2] + 1, o.kmers[i][1])
            /\ o.iter5 = NKmers(nv, 5)
  IN {c \in {"L1", "L2", "L3"} : ~(CASE c = "L1" -> L1 [] c = "L2" -> L2 [] c = "L3" -> L3)}

\* ---------------------------------------------------------------- reverse complement coherence (C12)
RcxFails(e) ==
  IF e.panic # "" THEN {"PANIC"} ELSE
  LET s == e.s  n == Len(s)  kk == e.kk
      KR == Kmers(RC(s), kk)
      \* the i-th k-mer of the reverse complement is the reverse complement of the (n-K-i)-th k-mer (0-based)
      Commutes == \A i \in 1..Len(KR) : KR[i] = RC(Kmers(s, kk)[Len(KR) + 1 - i])
      R1 == /\ Commutes
            /\ \A i \in 1..Len(e.res) : e.res[i].rc = RC(s) /\ e.res[i].rcrc = s /\ e.res[i].kmers_rc = KR
            \* a window [a, b) of a reverse-complemented view is the reverse complement of the mirrored window of s
            /\ \A i \in 1..Len(e.res) : e.res[i].ty = "windows" =>
                  \A j \in 1..Len(e.res[i].wins) :
                     LET w == e.res[i].wins[j] IN /\ w[3] = RC(Seg(s, n - w[2] + 1, n - w[1]))
                                                  /\ w[4] = Seg(s, n - w[2] + 1, n - w[1])
      R3 == DOMAIN e.kmer = {} \/
              /\ e.kmer.rc = RC(s) /\ e.kmer.canon = Canon(s) /\ e.kmer.canon_of_rc = Canon(s)
              /\ e.kmer.flip = ~LexLess(s, RC(s)) /\ e.kmer.pal = (s = RC(s))
  IN {c \in {"R1", "R3"} : ~(CASE c = "R1" -> R1 [] c = "R3" -> R3)}

\* Hamming-distance-1 neighbours (neighbors.rs): positions ascending, substituted bases ascending, the own base skipped
Hd1Fails(e) ==
  IF e.panic # "" THEN {"PANIC"} ELSE
  LET s == e.s  K == Len(s)
      Want == LET F[i \in 0..K] == IF i = 0 THEN <<>>
                                    ELSE F[i-1] \o [j \in 1..3 |-> [s EXCEPT ![i] = SortSet(Base \ {s[i]})[j]]]
              IN F[K]
  IN IF e.nb = Want THEN {} ELSE {"N1"}

ER(x) == [l |-> SetOf(x.l), r |-> SetOf(x.r)]
ExtsFails(e) ==
  LET x == ER(e)  oth == ER(e.other)
      Text(S) == Ascii(SortSet(S))
      \* the property (C12): rc swaps the sides and complements the bases, complement / reverse do one half each, involution
      R2 == /\ ER(e.rc) = FlipE(x)
            /\ ER(e.complement) = [l |-> CompS(x.l), r |-> CompS(x.r)]
            /\ ER(e.reverse) = [l |-> x.r, r |-> x.l]
            /\ FlipE(FlipE(x)) = x
      \* the rest of the Exts API (beyond the listed properties; reported, never a verdict)
      R2x == /\ e.nl = Cardinality(x.l) /\ e.nr = Cardinality(x.r)
             /\ \A b \in 0..3 : e.has[b + 1] = <<b \in x.l, b \in x.r>>
             /\ e.uniq[1] = (IF Cardinality(x.l) = 1 THEN CHOOSE b \in x.l : TRUE ELSE -1)
             /\ e.uniq[2] = (IF Cardinality(x.r) = 1 THEN CHOOSE b \in x.r : TRUE ELSE -1)
             /\ SetOf(e.single.l) = x.l /\ e.single.lr = <<>> /\ SetOf(e.single.r) = x.r /\ e.single.rr = <<>>
             /\ e.dbg = Text(x.l) \o "|" \o Text(x.r)
             /\ ER(e.merge) = [l |-> x.l, r |-> oth.r]
             /\ ER(e.add) = UnionE(x, oth)
             /\ ER(e.from_single_dirs) = [l |-> x.l, r |-> oth.l]
             /\ SetOf(e.mk.l) = {e.mk.a} /\ SetOf(e.mk.r) = {e.mk.b}
             /\ SetOf(e.mk.ml) = {e.mk.a} /\ e.mk.mlr = <<>> /\ SetOf(e.mk.mr) = {e.mk.b} /\ e.mk.mrl = <<>>
             /\ SetOf(e.mk.set_l) = x.l \cup {e.mk.a} /\ SetOf(e.mk.set_r) = x.r \cup {e.mk.b}
  IN (IF R2 THEN {} ELSE {"R2"}) \cup (IF R2x THEN {} ELSE {"R2x"})

\* ---------------------------------------------------------------- extraction (C13)
ExtractFails(e) ==
  IF e.panic # "" THEN {"PANIC"} ELSE
  LET K == e.K  s == e.s  n == Len(s)  KS == Kmers(s, K)  NKS == Len(KS)
      cl == SetOf(e.exts.l)  cr == SetOf(e.exts.r)
      Full(r) == "bulk" \notin DOMAIN r
      X1 == \A i \in 1..Len(e.res) : e.res[i].kmers = KS
      X2 == \A i \in 1..Len(e.res) : Full(e.res[i]) =>
              /\ Len(e.res[i].kmer_exts) = NKS
              /\ \A j \in 1..NKS : LET x == e.res[i].kmer_exts[j] IN
                   /\ x.k = KS[j]
                   /\ SetOf(x.l) = (IF j = 1 THEN cl ELSE {s[j - 1]})
                   /\ SetOf(x.r) = (IF j = NKS THEN cr ELSE {s[j + K]})
      X3 == \A i \in 1..Len(e.res) : Full(e.res[i]) =>
              LET r == e.res[i] IN
              IF NKS = 0 THEN r.first = <<>> /\ r.at = <<>>
              ELSE /\ r.first = KS[1] /\ r.last = KS[NKS] /\ r.both = <<KS[1], KS[NKS]>> /\ r.term = <<KS[1], KS[NKS]>>
                   /\ \A j \in 1..Len(r.at) : r.at[j][2] = KS[r.at[j][1] + 1]
      \* Exts::from_slice_bounds / from_dna_string: the flanks of a window (none at a sequence end)
      X4 == \A i \in 1..Len(e.flanks) :
              LET f == e.flanks[i]
                  wl == IF f.start > 0 THEN {s[f.start]} ELSE {}
                  wr == IF f.start + f.len < n THEN {s[f.start + f.len + 1]} ELSE {}
              IN SetOf(f.l) = wl /\ SetOf(f.r) = wr /\ SetOf(f.l2) = wl /\ SetOf(f.r2) = wr
  IN {c \in {"X1", "X2", "X3", "X4"} : ~(CASE c = "X1" -> X1 [] c = "X2" -> X2 [] c = "X3" -> X3 [] c = "X4" -> X4)}

\* ---------------------------------------------------------------- ASCII ingestion (C16)
\* maximal runs of ACGT letters, in order
Runs(codes) ==
  LET N == Len(codes)
      Starts == {i \in 1..N : IsAcgt(codes[i]) /\ (i = 1 \/ ~IsAcgt(codes[i - 1]))}
      EndOf(i) == CHOOSE j \in i..N : (\A m \in i..j : IsAcgt(codes[m])) /\ (j = N \/ ~IsAcgt(codes[j + 1]))
      ss == SortSet(Starts)
  IN [t \in 1..Len(ss) |-> MapBases(Seg(codes, ss[t], EndOf(ss[t])))]

AsciiFails(e) ==
  IF e.panic # "" THEN {"PANIC"} ELSE
  LET inp == e.input  N == Len(inp)  o == e.out  want == MapBases(inp)
      Upper(c) == IF IsAcgt(c) THEN AsciiCode(ByteToBase(c)) ELSE 65
      A1 == /\ o.acgt = want /\ o.acgt_len = N /\ o.b2b = want
            /\ o.valid = [i \in 1..N |-> IsAcgt(inp[i])]
            /\ o.only = [i \in 1..N |-> IF IsAcgt(inp[i]) THEN ByteToBase(inp[i]) ELSE -1]
            /\ (o.is_ascii => (o.str = want /\ o.eq_str))
      A2 == o.render = [i \in 1..N |-> Upper(inp[i])] /\ o.text = Ascii(want)
      A3 == o.is_ascii => o.strict = Runs(inp)
      A4 == /\ Len(o.hashn) = N /\ o.hashn = o.hashn_again /\ Len(o.hashn_other) = N /\ Len(o.hashn_name2) = N
            /\ \A i \in 1..N : /\ o.hashn[i] \in Base /\ o.hashn_name2[i] \in Base
                               /\ (IsAcgt(inp[i]) => (o.hashn[i] = want[i] /\ o.hashn_name2[i] = want[i]))
                               /\ (~IsAcgt(inp[i]) => o.hashn_other[i] = o.hashn[i])
            \* a function of (read name, position) only: the same position, alone in an otherwise repaired read, gets the same base
            /\ \A j \in 1..Len(o.hashn_single) : o.hashn_single[j][2] = o.hashn[o.hashn_single[j][1] + 1]
  IN {c \in {"A1", "A2", "A3", "A4"} : ~(CASE c = "A1" -> A1 [] c = "A2" -> A2 [] c = "A3" -> A3 [] c = "A4" -> A4)}

\* ---------------------------------------------------------------- machine
Fails(e) ==
  \* a shipped k-mer type is as wide as its name says (Kmer30 is a string of 30 letters): the history of a type that
  \* reports another width is rejected at its first event
  CASE e.op = "begin"   -> IF e.dom = "kmer" /\ e.K # e.Knom THEN {"K0"} ELSE {}
    [] e.op = "kop"     -> KopFails(e)
    [] e.op = "kpool"   -> KpoolFails(e)
    [] e.op = "sop"     -> SopFails(e)
    [] e.op = "pset"    -> PsetFails(e)
    [] e.op = "view"    -> ViewFails(e)
    [] e.op = "hamming" -> HammingFails(e)
    [] e.op = "lop"     -> LopFails(e)
    [] e.op = "rcx"     -> RcxFails(e)
    [] e.op = "exts"    -> ExtsFails(e)
    [] e.op = "hd1"     -> Hd1Fails(e)
    [] e.op = "extract" -> ExtractFails(e)
    [] e.op = "ascii"   -> AsciiFails(e)
    [] e.op = "timeout" -> {"TIMEOUT"}
    [] OTHER -> {"UNKNOWN-OP"}

\* the abstract state follows the OBSERVED value, so one rejected event does not hide the rest of its history
StateAfter(e) ==
  CASE e.op = "begin" /\ e.dom = "kmer"   -> <<[j \in 1..e.nregs |-> Zeros(e.K)], [dom |-> "kmer", K |-> e.K]>>
    [] e.op = "begin" /\ e.dom = "string" -> <<[j \in 1..e.nregs |-> <<>>], [dom |-> "string"]>>
    [] e.op = "begin" /\ e.dom = "lmer"   -> <<[j \in 1..e.nregs |-> <<>>], [dom |-> "lmer"]>>
    [] e.op = "begin" /\ e.dom = "slice"  -> <<<< <<>> >>, [dom |-> "slice", base |-> e.base, first |-> TRUE]>>
    [] e.op = "kop" /\ e.panic = ""  -> <<[regs EXCEPT ![e.dst + 1] = e.obs.val], meta>>
    [] e.op = "sop" /\ e.panic = ""  -> <<[regs EXCEPT ![e.dst + 1] = e.obs.bytes], meta>>
    [] e.op = "lop" /\ e.panic = ""  -> <<[regs EXCEPT ![e.dst + 1] = e.obs.bytes], meta>>
    [] e.op = "view" /\ e.panic = "" -> <<<<e.obs.bytes>>, [meta EXCEPT !.first = FALSE]>>
    [] OTHER -> <<regs, meta>>

Init == l = 1 /\ regs = <<>> /\ meta = [dom |-> "none"]
Next == /\ l <= Len(Rec)
        /\ l' = l + 1
        /\ LET e == Rec[l]  f == Fails(e) IN
             /\ (IF f = {} THEN TRUE ELSE PrintT(<<"FAIL", l, e.case, e.op, f>>))
             /\ regs' = StateAfter(e)[1] /\ meta' = StateAfter(e)[2]
Spec == Init /\ [][Next]_vars
Complete == PrintT(<<"DONE", TLCGet("stats").diameter - 1, Len(Rec)>>)
=============================================================================
