----------------------------- MODULE MC_Beam -----------------------------
EXTENDS BeamImpl
Strings(A, lo, hi) == UNION {[1..n -> A] : n \in lo..hi}
One(A, lo, hi) == {<<s>> : s \in Strings(A, lo, hi)}
ACGT == 0..3
AT == {0, 3}
In_K2_5 == One(ACGT, 2, 5)
In_K2_6 == One(ACGT, 2, 6)
In_K3_6 == One(ACGT, 3, 6)
In_K3_7 == One(ACGT, 3, 7)
In_K4_AT_10 == One(AT, 4, 10)
=============================================================================
