SPECIFICATION Spec
CONSTANTS
  Keys = {k1, k2, k3, k4}
  Slots = {s1, s2}
  Threads = {t1, t2}
INVARIANTS ScheduleIndependent PhaseOneDone
CHECK_DEADLOCK FALSE
