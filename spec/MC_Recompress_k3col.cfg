SPECIFICATION Spec
CONSTANTS
  K = 3
  Stranded = FALSE
  Mode = "colour"
  Inputs <- In_K3_two
  Rounds = 2
INVARIANTS Valid NoPanic NoDangling
CHECK_DEADLOCK FALSE
