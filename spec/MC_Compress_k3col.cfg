SPECIFICATION Spec
CONSTANTS
  K = 3
  Stranded = FALSE
  Mode = "colour"
  Thr = 1
  Inputs <- In_K3_two
  Dump = TRUE
INVARIANTS Valid NoPanic AvailDisjoint LinksOK ExportOK Emit
PROPERTY AvailShrinks
CHECK_DEADLOCK FALSE
