SPECIFICATION Spec
CONSTANTS
  W = 4
  K = 3
  Dump = FALSE
  MaxRun = 4
INVARIANT Inv
CHECK_DEADLOCK FALSE
