SPECIFICATION FairSpec
CONSTANTS
  MaxP = 6
  MaxS = 1
  MaxW = 3
PROPERTY Terminates
CHECK_DEADLOCK FALSE
