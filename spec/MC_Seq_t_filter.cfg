SPECIFICATION Spec
CONSTANTS
  Which = "filter"
  K = 3
  P = 1
  MaxLen = 5
  Alpha = {0, 1, 3}
  Perms <- PermId
INVARIANT OK
CHECK_DEADLOCK FALSE
