SPECIFICATION Spec
CONSTANTS
  Which = "msp"
  K = 4
  P = 2
  MaxLen = 7
  Alpha = {0, 1, 3}
  Perms <- Perms2
INVARIANT OK
CHECK_DEADLOCK FALSE
