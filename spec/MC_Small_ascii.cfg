SPECIFICATION Spec
CONSTANTS
  Which = "ascii"
  K = 1
  B = 3
  MaxLen = 7
  Alpha = {0, 3}
INVARIANT OK
CHECK_DEADLOCK FALSE
