SPECIFICATION Spec
CONSTANTS
  K = 3
  Stranded = FALSE
  Inputs <- In_K3_7
  Holes = TRUE
  SolidMin = 1
  Dump = FALSE
INVARIANTS TypeOK NoRepeat WalkOK SpellOK HasBest Emit
PROPERTY Grows
CHECK_DEADLOCK FALSE
