---------------------------- MODULE NodeIterImpl ----------------------------
(* NodeKmerIter (graph.rs:930-1003): num_kmers n, kmer_id id, and `cur`, the   *)
(* index of the k-mer currently held in self.kmer (OOB when a jump read      *)
(* beyond the node).  next() rolls one base; nth(m) steps one at a time for    *)
(* m <= 4 and jumps with get_kmer otherwise.  Abstract iterator: pos = number  *)
(* of items consumed; next returns item pos (or None), nth(m) item pos+m (or   *)
(* None, exhausting the iterator).  Fixed = FALSE is the code as pinned (the   *)
(* long jump did not check the bound): TLC finds nth(5) with fewer than 6      *)
(* items left.  Fixed = TRUE is the repaired code.                             *)
EXTENDS Integers, TLC
None == -1
OOB == -2

CONSTANTS MaxN, MaxM, MaxCalls, Fixed
VARIABLES n, id, cur, pos, calls, last
vars == <<n, id, cur, pos, calls, last>>

Held(i) == IF i < n THEN i ELSE OOB
NextR(i, c) == IF i = n THEN [o |-> None, id |-> i, cur |-> c]
               ELSE [o |-> c, id |-> i + 1, cur |-> IF i + 1 < n THEN i + 1 ELSE c]
RECURSIVE Skip(_, _, _)
Skip(i, c, m) == IF m = 0 THEN [id |-> i, cur |-> c] ELSE LET r == NextR(i, c) IN Skip(r.id, r.cur, m - 1)
NthR(m) == IF m <= 4 THEN LET s == Skip(id, cur, m) IN NextR(s.id, s.cur)
           ELSE IF Fixed /\ m >= n - id THEN NextR(n, cur)
           ELSE NextR(id + m, Held(id + m))

\* abstract iterator
AbsNext == IF pos < n THEN [o |-> pos, pos |-> pos + 1] ELSE [o |-> None, pos |-> n]
AbsNth(m) == IF pos + m < n THEN [o |-> pos + m, pos |-> pos + m + 1] ELSE [o |-> None, pos |-> n]

Init == n \in 0..MaxN /\ id = 0 /\ cur = Held(0) /\ pos = 0 /\ calls = 0 /\ last = <<"start", 0, 0, 0>>
DoNext == /\ calls < MaxCalls
          /\ LET r == NextR(id, cur)  a == AbsNext IN
               /\ id' = r.id /\ cur' = r.cur /\ pos' = a.pos /\ last' = <<"next", 0, r.o, a.o>>
          /\ calls' = calls + 1 /\ UNCHANGED n
DoNth == /\ calls < MaxCalls
         /\ \E m \in 0..MaxM :
              LET r == NthR(m)  a == AbsNth(m) IN
              /\ id' = r.id /\ cur' = r.cur /\ pos' = a.pos /\ last' = <<"nth", m, r.o, a.o>>
         /\ calls' = calls + 1 /\ UNCHANGED n
Next == DoNext \/ DoNth
Spec == Init /\ [][Next]_vars

\* every call returned what the abstract iterator returns: never a k-mer beyond the node, never an endless stream
Refines == last[1] = "start" \/ last[3] = last[4]
\* the implementation state stays a function of the abstract one
Coupled == id = pos \/ (pos = n /\ id >= n)
SizeHint == calls = 0 => n - id = n
=============================================================================
