SPECIFICATION Spec
CONSTANTS
  K = 4
  Stranded = FALSE
  Mode = "sum"
  Thr = 1
  Inputs <- In_K4_AT_12
  Dump = FALSE
INVARIANTS Valid NoPanic AvailDisjoint LinksOK ExportOK Emit
PROPERTY AvailShrinks
CHECK_DEADLOCK FALSE
