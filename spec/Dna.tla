--------------------------------- MODULE Dna ---------------------------------
(* Vocabulary of the whole specification: DNA strings are sequences over 0..3   *)
(* (A,C,G,T), k-mers are strings of length K, extension sets are records        *)
(* [l |-> SUBSET Base, r |-> SUBSET Base].  Pure operators only.                *)
EXTENDS Naturals, Sequences, FiniteSets

Base == 0..3
Comp(b) == 3 - b
CompS(S) == {3 - b : b \in S}

\* reverse complement: position i goes to n+1-i, base b to 3-b
RC(s) == [i \in 1..Len(s) |-> 3 - s[Len(s) + 1 - i]]
Rev(s) == [i \in 1..Len(s) |-> s[Len(s) + 1 - i]]

\* the window of n letters starting at (1-based) position i; total: positions outside the string read as 9 (no base), so
\* that an observation that points outside the string is rejected by comparison instead of stopping the evaluation
Sub(s, i, n) == [j \in 1..n |-> IF (i + j - 1) \in DOMAIN s THEN s[i + j - 1] ELSE 9]
\* the segment s[a..b] (1-based, inclusive), total in the same way (= SubSeq(s, a, b) when in range)
Seg(s, a, b) == Sub(s, a, IF b >= a THEN b - a + 1 ELSE 0)

Min2(a, b) == IF a < b THEN a ELSE b
Max2(a, b) == IF a > b THEN a ELSE b

\* strict lexicographic order A<C<G<T on strings, a proper prefix sorting first
LexLess(a, b) ==
  \/ \E i \in 1..Min2(Len(a), Len(b)) : a[i] < b[i] /\ \A j \in 1..(i-1) : a[j] = b[j]
  \/ Len(a) < Len(b) /\ \A j \in 1..Len(a) : a[j] = b[j]

Cmp(a, b) == IF a = b THEN "eq" ELSE IF LexLess(a, b) THEN "lt" ELSE "gt"

\* canonical (strand-neutral) representative and palindromes
Canon(x) == IF LexLess(RC(x), x) THEN RC(x) ELSE x
Pal(x) == x = RC(x)

\* one-base shifts of a k-mer
Succ(x, b) == [j \in 1..Len(x) |-> IF j < Len(x) THEN x[j+1] ELSE b]
Pred(x, a) == [j \in 1..Len(x) |-> IF j = 1 THEN a ELSE x[j-1]]

\* the sequence of all windows of width K (empty when the string is shorter than K)
NKmers(s, K) == IF Len(s) >= K THEN Len(s) - K + 1 ELSE 0
Kmers(s, K) == [i \in 1..NKmers(s, K) |-> Sub(s, i, K)]

SetOf(q) == {q[i] : i \in DOMAIN q}

\* extension records
NoExts == [l |-> {}, r |-> {}]
FlipE(e) == [l |-> CompS(e.r), r |-> CompS(e.l)]
UnionE(a, b) == [l |-> a.l \cup b.l, r |-> a.r \cup b.r]
Sym(e) == UnionE(e, FlipE(e))
Opp(d) == IF d = "L" THEN "R" ELSE "L"
Side(e, d) == IF d = "L" THEN e.l ELSE e.r

\* sum of a function over a finite set of integers-indexed things
RECURSIVE SumOver(_, _)
SumOver(F(_), S) == IF S = {} THEN 0 ELSE LET x == CHOOSE x \in S : TRUE IN F(x) + SumOver(F, S \ {x})

\* ascending sequence of a finite set of naturals
RECURSIVE SortSet(_)
SortSet(S) == IF S = {} THEN <<>>
              ELSE LET m == CHOOSE x \in S : \A y \in S : x <= y IN <<m>> \o SortSet(S \ {m})

\* rendering
Letter(b) == CASE b = 0 -> "A" [] b = 1 -> "C" [] b = 2 -> "G" [] b = 3 -> "T"
RECURSIVE Ascii(_)
Ascii(s) == IF Len(s) = 0 THEN "" ELSE Letter(s[1]) \o Ascii([i \in 1..(Len(s)-1) |-> s[i+1]])
AsciiCode(b) == CASE b = 0 -> 65 [] b = 1 -> 67 [] b = 2 -> 71 [] b = 3 -> 84
=============================================================================
