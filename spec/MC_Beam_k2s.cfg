SPECIFICATION Spec
CONSTANTS
  K = 2
  Stranded = TRUE
  Inputs <- In_K2_5
  Holes = TRUE
  Beam = 1
  Fixed = TRUE
INVARIANTS TypeOK NoPanic WalksOK RepeatsOK ScoresOK Sorted
CHECK_DEADLOCK FALSE
