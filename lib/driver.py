#!/usr/bin/env python3
"""Common machinery of ./check: build the harness against /repo's working tree, run TLC model
checking (stage mc), feed TLC-generated behaviours to the real code (stage replay), record traces
from the real code (stage record), validate them with TLC trace specs (stage validate), apply the
known-findings filter, write evidence, print verdict lines."""
import hashlib
import json
import os
import re
import shutil
import subprocess
import sys
import time

VERIF = os.path.dirname(os.path.dirname(os.path.abspath(__file__)))
SPEC = os.path.join(VERIF, "spec")
HARNESS = os.path.join(VERIF, "harness")
# VERIF_REPO=<dir>: test another checkout of the repository (e.g. a scratch worktree holding a seeded change) without
# touching /repo: a private copy of the harness crate is pointed at it.  Registered checks never set it.
ALT_REPO = os.environ.get("VERIF_REPO")
if ALT_REPO:
    ALT_REPO = os.path.abspath(ALT_REPO)
    _h = os.path.join(VERIF, "work", "harness-" + hashlib.sha1(ALT_REPO.encode()).hexdigest()[:10])
    if not os.path.exists(os.path.join(_h, "Cargo.toml")):
        os.makedirs(_h, exist_ok=True)
        shutil.copytree(os.path.join(HARNESS, "src"), os.path.join(_h, "src"), dirs_exist_ok=True)
        shutil.copytree(os.path.join(HARNESS, ".cargo"), os.path.join(_h, ".cargo"), dirs_exist_ok=True)
        shutil.copy(os.path.join(HARNESS, "Cargo.lock"), _h)
        open(os.path.join(_h, "Cargo.toml"), "w").write(open(os.path.join(HARNESS, "Cargo.toml")).read().replace('path = "/repo"', 'path = "%s"' % ALT_REPO))
    else:
        shutil.copytree(os.path.join(HARNESS, "src"), os.path.join(_h, "src"), dirs_exist_ok=True)
    HARNESS = _h
VH = os.path.join(HARNESS, "target", "release", "vh")
JAR = "/opt/veriftools/tla/tla2tools.jar:/opt/veriftools/tla/CommunityModules-deps.jar"
NCPU = os.cpu_count() or 4


class ToolError(Exception):
    pass


def log(msg):
    print(msg, flush=True)


def run(cmd, timeout, env=None, cwd=None, stdout=None):
    e = dict(os.environ)
    if env:
        e.update(env)
    return subprocess.run(cmd, timeout=timeout, env=e, cwd=cwd, stdout=stdout or subprocess.PIPE,
                          stderr=subprocess.STDOUT, text=True)


def build_harness():
    t0 = time.time()
    env = {"CARGO_NET_OFFLINE": "true"}
    try:
        p = run(["cargo", "build", "--release", "--offline"], timeout=1800, env=env, cwd=HARNESS)
    except subprocess.TimeoutExpired:
        raise ToolError("harness build timed out")
    if p.returncode != 0:
        sys.stdout.write(p.stdout[-6000:])
        raise ToolError("harness does not build against /repo's working tree (not a verdict)")
    return time.time() - t0


def java_cmd(xmx="2g"):
    return ["java", "-XX:+UseSerialGC", "-Xss1g", "-Xmx" + xmx, "-cp", JAR, "tlc2.TLC"]


RE_STATES = re.compile(r"(\d+) states generated, (\d+) distinct states found")


class McResult:
    def __init__(self):
        self.states = 0
        self.transitions = 0
        self.runs = []
        self.coverage = {}


def run_mc(work, module, cfg, workers, timeout, mc, extra_env=None, want_output=None, xmx="8g", simulate=None):
    """Exhaustive TLC run of a model; a failure here is a defect of the specification (exit 2)."""
    meta = os.path.join(work, "mc-" + cfg.replace(".cfg", ""))
    os.makedirs(meta, exist_ok=True)
    out_path = os.path.join(meta, "tlc.out")
    cmd = ["java", "-XX:+UseParallelGC", "-Xss1g", "-Xmx" + xmx, "-cp", JAR, "tlc2.TLC",
           "-workers", str(workers), "-metadir", meta, "-noGenerateSpecTE", "-coverage", "1",
           "-config", os.path.join(SPEC, cfg)]
    if simulate:
        cmd += ["-simulate", simulate]
    cmd += [os.path.join(SPEC, module + ".tla")]
    t0 = time.time()
    with open(out_path, "w") as f:
        try:
            p = run(cmd, timeout=timeout, env=extra_env, cwd=meta, stdout=f)
        except subprocess.TimeoutExpired:
            raise ToolError("TLC model checking of %s/%s timed out after %ds" % (module, cfg, timeout))
    txt = open(out_path, errors="replace").read()
    ok = "Model checking completed. No error has been found." in txt or (simulate and p.returncode == 0)
    if not ok:
        sys.stdout.write(txt[-4000:])
        raise ToolError("TLC reports an error in model %s (%s): the specification itself is broken" % (module, cfg))
    m = None
    for m in RE_STATES.finditer(txt):
        pass
    gen, dist = (int(m.group(1)), int(m.group(2))) if m else (0, 0)
    mc.states += dist
    mc.transitions += gen
    # coverage: action lines look like "<Action line .. of module M>: distinct:generated"
    cov = {}
    for cm in re.finditer(r"^<(\w+) line \d+, col \d+ to line \d+, col \d+ of module (\w+)>: (\d+):(\d+)", txt, re.M):
        cov["%s.%s" % (cm.group(2), cm.group(1))] = int(cm.group(4))
    mc.coverage.update(cov)
    mc.runs.append({"module": module, "cfg": cfg, "distinct_states": dist, "states_generated": gen,
                    "wall_s": round(time.time() - t0, 1), "actions_never_taken": sorted(k for k, v in cov.items() if v == 0)})
    shutil.rmtree(os.path.join(meta, "states"), ignore_errors=True)
    for d in os.listdir(meta):
        if re.match(r"\d\d-\d\d-\d\d", d):
            shutil.rmtree(os.path.join(meta, d), ignore_errors=True)
    if want_output:
        lines = []
        for ln in txt.splitlines():
            ln = ln.strip()
            if ln.startswith('"') and want_output in ln:
                try:
                    lines.append(json.loads(json.loads(ln)))
                except Exception:
                    pass
        return lines
    return []


def run_apalache(work, module, obligations, timeout=900):
    """Discharge inductive-invariant obligations with Apalache (unbounded complement of a TLC model).
    obligations: list of (init, inv, length).  A failure is a defect of the specification (exit 2)."""
    d = os.path.join(work, "apalache-" + module)
    os.makedirs(d, exist_ok=True)
    done = []
    for init, inv, length in obligations:
        t0 = time.time()
        cmd = ["apalache-mc", "check", "--init=" + init, "--inv=" + inv, "--length=%d" % length, "--out-dir=" + d,
               os.path.join(SPEC, module + ".tla")]
        try:
            p = run(cmd, timeout=timeout, cwd=d)
        except subprocess.TimeoutExpired:
            raise ToolError("Apalache timed out on %s: %s => %s" % (module, init, inv))
        if "The outcome is: NoError" not in p.stdout:
            sys.stdout.write(p.stdout[-3000:])
            raise ToolError("Apalache does not discharge %s: init %s, invariant %s, length %d" % (module, init, inv, length))
        done.append({"module": module, "init": init, "inv": inv, "length": length, "wall_s": round(time.time() - t0, 1)})
    shutil.rmtree(d, ignore_errors=True)
    return done


def run_vh(work, args, out_name, timeout, threads="2"):
    """Run the harness; returns (path, exit_code). Exit 3 = watchdog fired (a `timeout` event was written)."""
    out = os.path.join(work, out_name)
    cmd = [VH] + args + ["--out", out]
    env = {"RAYON_NUM_THREADS": threads, "RUST_BACKTRACE": "0"}
    try:
        with open(out + ".stdout", "w") as so:
            p = run(cmd, timeout=timeout, env=env, cwd=work, stdout=so)
        rc = p.returncode
    except subprocess.TimeoutExpired:
        rc = 124
    return out, rc


SOURCE_OF = {}     # event line -> trace file it came from (for replay files)
STATEFUL_OPS = ("kop", "sop", "lop", "view", "lc_compress", "lc_query", "lc_fixexts", "lc_recompress")
RE_FAIL = re.compile(r'^<<"FAIL", (\d+), (-?\d+), "([^"]*)", \{([^}]*)\}(?:, (.*))?>>$')
RE_DONE = re.compile(r'^<<"DONE", (\d+), (\d+)>>$')


def validate(work, trace_spec, trace_files, nproc, timeout, depth=0, xmx="2g", alone=False):
    """Validate recorded events with the TLC trace spec, sharded over nproc single-worker TLC processes.
    Returns list of (event_dict, set_of_failed_clauses) and the number of events examined."""
    events = []
    for tf in trace_files:
        with open(tf) as f:
            for ln in f:
                ln = ln.strip()
                if ln:
                    events.append(ln)
                    if ln not in SOURCE_OF:
                        SOURCE_OF[ln] = tf
    n = len(events)
    if n == 0:
        return [], 0, 0
    nshards = max(1, min(nproc, n // 40 + 1))
    # a TLC process holds its whole shard in memory (Rec): bound the shard size, and run the shards in waves of nproc
    total_bytes = sum(len(e) for e in events)
    nshards = max(nshards, total_bytes // (120 << 20) + 1, n // 30000 + 1)
    # histories (a `begin` event followed by stateful events) must stay together, in order, in one shard; every other
    # event stands alone.  (Trace files of different origins are concatenated - e.g. model replays, which have no
    # histories, before a recording that has - so this is decided per event, never from the head of the list.)
    re_op = re.compile(r'"op":\s*"([^"]+)"')
    groups, cur = [], []
    stateful = False
    for e in events:
        m = re_op.search(e)
        op = m.group(1) if m else ""
        if op == "begin":
            stateful = True
            if cur:
                groups.append(cur)
            cur = [e]
        elif cur and (op in STATEFUL_OPS or '"dom":"lifecycle"' not in cur[0]):
            # inside a history: stateful events always; state-free ones too in the data domain (they are emitted in the
            # middle of histories there), while in the graph domain a state-free event ends the life-cycle history
            cur.append(e)
        else:
            if cur:
                groups.append(cur)
                cur = []
            groups.append([e])
    if cur:
        groups.append(cur)
    shards = [[] for _ in range(nshards)]
    load = [0] * nshards
    for g in groups:
        i = load.index(min(load))
        shards[i].extend(g)
        load[i] += sum(len(x) for x in g)
    procs = []
    pending = []
    for i, sh in enumerate(shards):
        if not sh:
            continue
        d = os.path.join(work, "val-%s-%d" % (trace_spec, i))
        os.makedirs(d, exist_ok=True)
        tp = os.path.join(d, "trace.ndjson")
        with open(tp, "w") as f:
            f.write("\n".join(sh) + "\n")
        outp = os.path.join(d, "tlc.out")
        cmd = java_cmd(xmx) + ["-workers", "1", "-metadir", d, "-noGenerateSpecTE", "-config",
                               os.path.join(SPEC, trace_spec + ".cfg"), os.path.join(SPEC, trace_spec + ".tla")]
        env = dict(os.environ)
        env["TRACE"] = tp
        pending.append((cmd, env, d, outp, sh))

    def launch(job):
        cmd, env, d, outp, sh = job
        f = open(outp, "w")
        return (subprocess.Popen(cmd, env=env, cwd=d, stdout=f, stderr=subprocess.STDOUT), f, outp, sh, d)

    running = [launch(j) for j in pending[:nproc]]
    queue = pending[nproc:]
    t_wave_end = time.time() + timeout
    while running:
        still = []
        for r in running:
            if r[0].poll() is None:
                still.append(r)
            else:
                procs.append(r)
                if queue:
                    still.append(launch(queue.pop(0)))
        running = still
        if running:
            if time.time() > t_wave_end:
                for q in running:
                    q[0].kill()
                raise ToolError("TLC trace validation (%s) timed out after %ds" % (trace_spec, timeout))
            time.sleep(0.2)
    failures = []
    t_end = time.time() + timeout
    for p, f, outp, sh, d in procs:
        f.close()
        txt = open(outp, errors="replace").read()
        done = None
        for ln in txt.splitlines():
            ln = ln.strip()
            m = RE_FAIL.match(ln)
            if m:
                idx = int(m.group(1))
                clauses = set(c.strip().strip('"') for c in m.group(4).split(",") if c.strip())
                ev = json.loads(sh[idx - 1])
                ev["_src"] = SOURCE_OF.get(sh[idx - 1], "")
                if stateful and ev.get("op") in STATEFUL_OPS:
                    # a stateful event is replayable only with its history: keep everything from its `begin`
                    b = idx - 1
                    while b > 0 and '"op":"begin"' not in sh[b]:
                        b -= 1
                    ev["_history"] = [json.loads(x) for x in sh[b:idx - 1]]
                failures.append((ev, clauses, m.group(5) or ""))
                continue
            m = RE_DONE.match(ln)
            if m:
                done = (int(m.group(1)), int(m.group(2)))
        if done is None or done[0] != done[1] or done[1] != len(sh):
            # TLC stopped in the middle of the shard: an evaluation error of the trace spec on one event (an observation the
            # specification cannot even interpret).  That event is reported as rejected (clause UNEXPLAINABLE) and the rest of
            # the shard is validated separately, so that nothing behind it goes unexamined.
            m = None
            for m in RE_STATES.finditer(txt):
                pass
            consumed = int(m.group(1)) if m else 0          # states generated = events consumed + the initial state
            if "Error:" not in txt or consumed < 1 or consumed > len(sh) or depth >= 25:
                sys.stdout.write(txt[-3000:])
                raise ToolError("TLC trace validation (%s) did not consume the whole trace %s" % (trace_spec, outp))
            bad = consumed                                   # 1-based index of the event being evaluated when TLC stopped
            ev = json.loads(sh[bad - 1])
            ev["_src"] = SOURCE_OF.get(sh[bad - 1], "")
            err = ""
            em = re.search(r"Error: (.*)", txt)
            if em:
                err = em.group(1)[:200]
            if stateful and ev.get("op") in STATEFUL_OPS:
                b = bad - 1
                while b > 0 and '"op":"begin"' not in sh[b]:
                    b -= 1
                ev["_history"] = [json.loads(x) for x in sh[b:bad - 1]]
            explained = False
            if not alone:
                # TLC may have stopped for lack of resources (a shard is held in memory as a whole) rather than because of
                # this event: judge the event again on its own (with its history), with a larger heap, before reporting it
                b = bad - 1
                if stateful and ev.get("op") in STATEFUL_OPS:
                    while b > 0 and '"op":"begin"' not in sh[b]:
                        b -= 1
                ap = os.path.join(d, "alone.ndjson")
                with open(ap, "w") as af:
                    af.write("\n".join(sh[b:bad]) + "\n")
                asub = os.path.join(d, "alone")
                os.makedirs(asub, exist_ok=True)
                try:
                    fl1, _, _ = validate(asub, trace_spec, [ap], 1, max(900, t_end - time.time()), depth + 1, xmx="8g", alone=True)
                    explained = not any("UNEXPLAINABLE" in c for _, c, _ in fl1)
                    if explained:
                        # only the event itself is judged here; its history was already judged in this shard
                        for ev1, c1, x1 in fl1:
                            if ev1.get("case") == ev.get("case") and ev1.get("op") == ev.get("op"):
                                if "_history" in ev:
                                    ev1["_history"] = ev["_history"]
                                ev1["_src"] = ev["_src"]
                                failures.append((ev1, c1, x1))
                        sys.stderr.write("note: %s event (case %s) was evaluated on its own after TLC stopped in a shard (%s)\n" % (ev.get("op"), ev.get("case"), err[:80]))
                except ToolError:
                    explained = False
            if not explained:
                failures.append((ev, {"UNEXPLAINABLE"}, "trace spec could not evaluate this event: " + err))
            rest = sh[bad:]
            if stateful:
                # the abstract registers are lost: resume at the next history
                k = 0
                while k < len(rest) and '"op":"begin"' not in rest[k]:
                    k += 1
                rest = rest[k:]
            if rest:
                rp = os.path.join(d, "rest.ndjson")
                with open(rp, "w") as rf:
                    rf.write("\n".join(rest) + "\n")
                sub = os.path.join(d, "rest")
                os.makedirs(sub, exist_ok=True)
                fl2, _, _ = validate(sub, trace_spec, [rp], 1, max(60, t_end - time.time()), depth + 1)
                failures.extend(fl2)
        shutil.rmtree(os.path.join(d, "states"), ignore_errors=True)
    return failures, n, len(procs)


def load_known():
    p = os.path.join(VERIF, "known_findings.json")
    if not os.path.exists(p):
        return []
    return json.load(open(p)).get("findings", [])


def _cond(ev, c):
    f, op, v = c
    x = ev
    for part in f.split("."):
        if isinstance(x, dict) and part in x:
            x = x[part]
        elif part == "len" and isinstance(x, (list, str)):
            x = len(x)
        else:
            return False
    if op == "==":
        return x == v
    if op == "!=":
        return x != v
    if op == ">=":
        return x >= v
    if op == "<":
        return x < v
    if op == "in":
        return x in v
    if op == "contains":
        return v in x
    return False


def match_known(known, prop, ev, clauses):
    """An `open` finding suppresses a failing event only if property, every condition and the clause set match."""
    for k in known:
        if k.get("status") != "open" or k.get("property") != prop:
            continue
        if not all(_cond(ev, c) for c in k.get("when", [])):
            continue
        if not clauses <= set(k.get("clauses", [])):
            continue
        return k
    return None


def event_key(ev):
    e = dict(ev)
    for k in ("case", "origin"):
        e.pop(k, None)
    return hashlib.sha1(json.dumps(e, sort_keys=True).encode()).hexdigest()


def write_evidence(prop, tier, seed, coverage, assumptions, wall, violations):
    edir = os.path.join(VERIF, "work", "evidence-alt") if ALT_REPO else os.path.join(VERIF, "evidence")
    os.makedirs(edir, exist_ok=True)
    ev = {"property_id": prop, "tier": tier, "seed": seed, "level": "model_checking", "coverage": coverage,
          "assumptions": assumptions, "wall_s": round(wall, 1), "violations": violations}
    with open(os.path.join(edir, prop + ".json"), "w") as f:
        json.dump(ev, f, indent=1)
        f.write("\n")


def shrink_sample(ev, limit=1200):
    s = json.dumps(ev, sort_keys=True)
    if len(s) <= limit:
        return ev
    out = {}
    for k, v in ev.items():
        sv = json.dumps(v)
        out[k] = v if len(sv) <= 300 else (sv[:300] + "...")
    return out
