#!/usr/bin/env python3
"""keepmut.py <scratch id> <seeded id> <property> <caught_by (comma list)> <missed_by_before_fix (comma list or -)> [note]
Copies a confirmed seeded change from /tmp/mut/<scratch id> to /verif/seeded/<seeded id>/."""
import json, os, shutil, sys
sid, out, prop, caught, missed = sys.argv[1:6]
note = sys.argv[6] if len(sys.argv) > 6 else ""
src = "/tmp/mut/" + sid
dst = "/verif/seeded/" + out
os.makedirs(dst, exist_ok=True)
shutil.copy(src + "/patch.diff", dst + "/patch.diff")
shutil.copy(src + "/tests/demo.rs", dst + "/demo.rs")
meta = json.load(open(src + "/meta.json"))
conf = json.load(open(src + "/confirm.json"))
ok = conf["build_exit"] == 0 and conf["existing_tests_exit"] == 0 and conf["demo_with_change_exit"] != 0 and conf["demo_without_change_exit"] == 0
m = {
    "property": prop,
    "file": meta.get("file"),
    "summary": meta.get("summary"),
    "needs": meta.get("needs"),
    "demo": "demo.rs (an integration test: copy to <worktree>/tests/demo.rs; cargo test --offline --test demo%s)" % (" --features verif_hooks" if "verif_hooks" in open(src + "/tests/demo.rs").read() else ""),
    "confirmed_by_me": {
        "in": "scratch worktree /tmp/mut/%s (removed afterwards)" % sid,
        "ran": ["cargo build --offline", "cargo test --offline --lib   (existing suite, with the change)", "cargo test --offline --test demo   (with the change)", "git stash; cargo test --offline --test demo   (without the change); git stash pop",
                "./mutcheck patch.diff quick <ids>   (git -C /repo apply; ./check <id> quick; git -C /repo checkout -- .)"],
        "builds": conf["build_exit"] == 0, "existing_tests": conf["existing_tests"], "demo_fails_with_change": conf["demo_with_change_exit"] != 0,
        "demo_passes_without_change": conf["demo_without_change_exit"] == 0, "all_confirmed": ok,
    },
    "caught_by_checks": [c for c in caught.split(",") if c and c != "-"],
    "missed_before_strengthening": [c for c in missed.split(",") if c and c != "-"],
    "note": note,
}
json.dump(m, open(dst + "/meta.json", "w"), indent=1)
print(out, "kept" if ok else "NOT CONFIRMED", m["caught_by_checks"])
