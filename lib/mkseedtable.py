#!/usr/bin/env python3
"""Regenerate section 12 of DESIGN.md (table of seeded changes) from seeded/*/meta.json."""
import glob, json, os, re
root = os.path.join(os.path.dirname(os.path.abspath(__file__)), "..")
rows = []
for d in sorted(glob.glob(os.path.join(root, "seeded", "*"))):
    m = json.load(open(os.path.join(d, "meta.json")))
    name = os.path.basename(d)
    needs = (m.get("needs") or "").replace("\n", " ")
    if isinstance(m.get("needs"), list):
        needs = "; ".join(m["needs"])
    needs = needs[:220] + ("…" if len(needs) > 220 else "")
    rows.append("| `%s` | %s | %s | %s | %s | %s |" % (
        name, m["property"], (m.get("file") or "").replace("/tmp/mut/", ""), (m.get("note") or "")[:260].replace("|", "/"),
        ", ".join(m.get("caught_by_checks", [])), ", ".join(m.get("missed_before_strengthening", [])) or "–"))
sec = """## 12. Seeded changes: which checks catch which

Each change was written by a fresh sub-agent that was given only the text of one property and a scratch
worktree of /repo (nothing from /verif), asked for a change that still compiles and passes the existing
tests, needs something specific to manifest, and comes with a demonstration test. I confirmed each in
its scratch worktree (build; `cargo test --offline --lib` passes with the change; the demonstration fails
with it and passes without it), then applied the patch to /repo (`git -C /repo apply`), ran the checks
(`./mutcheck`), and undid it. `seeded/<id>/` holds patch.diff, demo.rs and meta.json. "caught by" lists
check:clauses as reported by the quick tier; "missed before" names a check that had to be strengthened.

| id | property | file | change / what it needs | caught by (quick) | missed before strengthening |
|---|---|---|---|---|---|
""" + "\n".join(rows) + """

Totals: %d changes kept, every one caught in the quick tier - by the check of the property it was written against,
with one exception: `C07-msp-sequence-len-eq-k` changes `msp_sequence`, which is C08's observation point, and is caught
there (C08:M3) while the C07 check, which observes `Scanner::scan` / `simple_scan`, rightly stays quiet.
%d of them were caught only after the check was strengthened (recorded in the last column).

**Regression at the end of the round.** The generators kept changing while the rounds went on, so a change caught in
round 3 need not be caught by the machinery as committed. At the end of the build round every one of the changes that
had needed strengthening (30) and a random selection of the others (45) - 75 of the then 139 - were applied once more in
scratch worktrees and the final quick check of their property was run against them (`seeded_regression_final.txt`): 75 of
75 reported a violation. In the following session 26 more of the remaining 64 were re-checked the same way (C07, C10-C19, against the checks as
they stood around round 17: 26 of 26 reported a violation; appended to the same file, 101 lines in all). (The other 38
were last checked in the round in which they were written.)

**Round 17** (six sub-agents: C04 C05 C08 C14 C15 C18). Caught as the checks stood: C04, C14, C18. Missed and the check
strengthened: C15 (`C15-slice-eq-same-backing-by-offset`: equality of two views of the SAME string at different offsets
was only ever observed between a view and the view nested in it, which cannot have the same length unless it is the same
window; each `view` event now also builds a sibling view - same string, length and orientation, shifted by one period -
and W4 demands `==` in both directions to agree with the bases; one base string in three is periodic) and C08
(`C08-perm-index-through-u16`: the `msp` events only used minimizer types up to Kmer6; Kmer10 - 4^10 values, a
permutation table of 2^20 entries - is now drawn for one event in eight, and cores are periodic after a short head in a
quarter of all events so that several p-mers of one k-mer agree on most of their bases). Not kept: the C05 candidate
(extension orientation of a self-reverse-complementary k-mer: not decided by the statement, `seeded_rejected/README.json`).
""" % (len(rows), sum(1 for d in glob.glob(os.path.join(root, "seeded", "*")) if json.load(open(os.path.join(d, "meta.json"))).get("missed_before_strengthening")))
rj = os.path.join(root, "seeded_rejected", "README.json")
if os.path.exists(rj):
    sec += "\n**Candidates not kept** (`seeded_rejected/`): a sub-agent's change is kept only if I can confirm that it violates the property as stated.\n\n"
    for x in json.load(open(rj))["not_kept"]:
        sec += "* `%s` (written against %s): %s. *%s*\n" % (x["id"], x["written_against"], x["change"], x["why_not_kept"])
p = os.path.join(root, "DESIGN.md")
s = open(p).read()
if "## 12. Seeded changes" in s:
    i = s.index("## 12. Seeded changes")
    j = s.index("## Appendix A")
    s = s[:i] + sec + "\n---------------------------------------------------------------------------------------------------\n\n" + s[j:]
else:
    j = s.index("## Appendix A")
    # the separator line before Appendix A stays where it is
    s = s[:j] + sec + "\n---------------------------------------------------------------------------------------------------\n\n" + s[j:]
open(p, "w").write(s)
print(len(rows), "rows")
