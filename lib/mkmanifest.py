#!/usr/bin/env python3
"""Regenerate /verif/MANIFEST.json from lib/props.py and the per-property texts below."""
import json, os, sys
sys.path.insert(0, os.path.dirname(os.path.abspath(__file__)))
import props as P

TEXT = {
 "C01": ("TLC explores the implementation-shaped model CompressImpl (every seed order of CompressFromHash) for every read in a small scope and checks the declarative partition/payload clauses V1, V2a, V4 of Dbg; every model input is replayed through the three real entry points and, with exhaustive small-K reads and structured/random read sets at all graph K types, every result is judged by TLC against the same clauses.", "5 C01"),
 "C02": ("Same models and traces as C01, judged by the maximality clauses V2b (every in-node link is mergeable: sole extension on both sides, distinct non-palindromic k-mers, join predicate) and V3 (no mergeable link leaves a node end), with the always-true and the colour join predicate; demanded only of tables whose extensions reference present k-mers.", "5 C02"),
 "C03": ("TLC checks Links = observed (K+1)-mers and edge symmetry on every CompressImpl result and find_link/fix_exts on RecompressImpl; recorded find_link probes, edge lists, random walks, max_path, and the three pruning operations on real graphs are judged by the abstract Lookup / Obs / walk predicates.", "5 C03"),
 "C04": ("One event per input carries the real direct and the real sharded pipeline (msp_sequence -> per-bucket filter/compress -> combine -> compress_graph); TLC requires the sharded result to be the valid compression of the reference table of the reads and to have the same blocks, payloads and links as the direct result.", "5 C04"),
 "C05": ("The reference grouping (keys, union of strand-normalised flanks with caller extensions at read ends, counts / label sets / labels in input order, all-k-mers ascending, get) is a TLA+ operator; every real filter_kmers result, at many pass counts forced through the verif_hooks memory-unit override and proven by the hook's pass log, is judged against it; the pass plan must tile 0..255.", "5 C05"),
 "C06": ("Pairs of runs (reads, reads with a subset reverse-complemented; all subsets for n <= 4) through table construction and the direct, sharded and re-compressed pipelines: TLC requires equal tables (palindromic keys' extensions excepted), canonical keys, equal blocks/payloads/links; in stranded mode exactly the forward k-mers and (K+1)-mers of the reads.", "5 C06"),
 "C07": ("Every clause of the statement is a TLA+ predicate over the logged per-position scores (cover, k-1 overlap, length bounds, minimizer = p-mer at its position, inside every k-mer, minimal score, no premature end); real Scanner::scan / simple_scan outputs for tied, constant and permutation scores are judged by it.", "5 C07"),
 "C08": ("TLC checks on real msp_sequence output that pieces are exact substrings at the offsets the overlap law gives, boundary extensions are the true flanks, every k-mer is covered, and the (canonical k-mer, bucket) relation is a function, for reads with planted repeats and reverse-complement copies.", "5 C08"),
 "C09": ("TLC explores RecompressImpl (find_link, fix_exts, try_extend_node, censoring; every censor subset, two rounds) against the declarative validity of the pruned table the input graph denotes; real compress_graph runs on one-k-mer-per-node, compressed, unpruned and second-round graphs with random and tip-cleaning censor sets are judged by the same clauses plus 'no dangling extension'.", "5 C09"),
 "C10": ("Abstract k-mer = K-letter string; every Mer/Kmer operation is the string operation. Real operations on all 19 types (exhaustive values for small K, OR-basis + random above; every position and run length, junk in unused value bits) are judged by TLC: value, rank digits, AT/GC, text, Debug, iteration, Hamming.", "5 C10"),
 "C11": ("Register-machine histories on all 19 types reach the same string by different routes; after every step ==, !=, cmp, partial_cmp, < and hash equality between all registers are required to be the string relations; sort, dedup, binary search, HashSet and perfect-hash look-ups at the end of each history.", "5 C11"),
 "C12": ("RC laws are operators of Dna.tla; rc() of every container of the same bases must equal RC, be an involution, commute with k-mer extraction; canonical form, flip flag and palindrome test; all 256 extension sets through rc/complement/reverse and the full Exts API against the set model.", "5 C12"),
 "C13": ("Kmers(s,K) is the oracle: get_kmer at every position, iter_kmers, first/last/term/both, bulk constructors and iter_kmer_exts (true flanks, caller extensions only at the ends) for every container incl. forward and reverse-complemented slices at offsets, Lmer1-4, byte wrappers, K narrower/equal/wider than a block.", "5 C13"),
 "C14": ("Register machine on plain strings in TLA+: every construction/mutation is the string operation; after each real step length, every base, iteration, renderings and ==/cmp/hash/ndiffs between registers built by different routes are judged; PackedDnaStringSet add/get/slice.", "5 C14"),
 "C15": ("The abstract state of a view is the substring it denotes; prefix/suffix/slice/rc are pure string operations; every observer after every real step must match; Hamming distance = number of differing positions for lengths up to 2100, forward/rc/mixed views.", "5 C15"),
 "C16": ("ByteToBase, maximal-run splitting and rendering are TLA+ operators; every byte value at every lane of a 32-byte block, every length 0..130 and random byte strings through the lenient, str-based, strict and hashed-N constructors are judged; hashed-N: deterministic, ACGT untouched, valid bases, position-wise function of (name, position).", "5 C16"),
 "C17": ("Register machine on strings for Lmer<[u64;1..6]>: new/from_slice/set_mut/set_slice_mut/rc; len and every base after every step, ==/hash between registers, get_kmer and iter_kmers; write positions at word edges and in the word holding the length byte.", "5 C17"),
 "C18": ("Abstract iterator = number of items consumed; next/nth(m) call sequences (m below/above the short-skip threshold, inside/beyond the remaining count) on every node of real graphs are judged; whole-graph iteration must be the concatenation of node k-mers and serial/parallel MPHFs over it must be perfect.", "5 C18"),
 "C19": ("finish() under rayon pools of 1..16 threads, repeated, must give the same digest of all find_link/edges answers, node ids and order as finish_serial(); answers are judged by the abstract Lookup on small graphs and by sampled answers on graphs of >= 10^5 nodes.", "5 C19"),
 "C20": ("GFA link set in port normal form and JSON link bag are TLA+ operators over node sequences and extensions (self-links on either side included, multiplicity 1 unless a palindromic single-k-mer node is touched, K-1 overlap); real write_gfa/to_gfa/to_gfa_with_tags/to_json_rest output is parsed and judged; serde_json round trips of k-mers, strings, Exts, Dir, BaseGraph, DebruijnGraph must preserve projection and probe answers.", "5 C20"),
}

def main():
    props = [json.loads(l)["id"] for l in open(os.path.join(os.path.dirname(__file__), "..", "properties.jsonl"))]
    checks = []
    for pid in props:
        if pid not in P.PROPS:
            continue
        txt, ref = TEXT[pid]
        has_mc = bool(P.PROPS[pid].get("mc"))
        checks.append({
            "property_id": pid,
            "quick_cmd": "./check %s quick" % pid,
            "thorough_cmd": "./check %s thorough" % pid,
            "evidence_file": "/verif/evidence/%s.json" % pid,
            "replay_cmd_template": "./check replay {path}",
            "engine": "tlc",
            "level_claimed": {"category": "model_checking", "text": txt, "design_ref": "DESIGN.md section " + ref},
            "level_note": "; ".join(P.PROPS[pid]["assumptions"]),
            "technique": ("TLA+ spec: TLC exhaustive model checking of the implementation-shaped model + " if has_mc else "TLA+ spec: ") +
                         "TLC trace validation of events recorded from the real code (and TLC-generated behaviours replayed into it)" +
                         ("; Apalache inductive invariant (unbounded) for the pass-planning loop" if P.PROPS[pid].get("apalache") else ""),
        })
    na = [{"property_id": p, "reason": "check not built yet"} for p in props if p not in P.PROPS]
    hooks_commits = os.popen("git -C /repo log --format=%H --grep='^verif_hooks'").read().split()
    m = {
        "version": 1,
        "setup_cmd": "./check setup",
        "hooks": {"guard": "cargo feature verif_hooks", "enable": "harness Cargo.toml: debruijn = { path = \"/repo\", features = [\"verif_hooks\"] }",
                  "baseline_off_cmd": "cd /repo && cargo test --workspace --no-fail-fast --offline", "source_commits": hooks_commits, "add_only": True},
        "engines": [{"name": "tlc", "path": "/verif/spec", "serves_properties": props,
                     "kind_free_text": "TLA+ specifications (Dna, Dbg, *Impl models, Trace* trace specs) checked with TLC 1.8.0; Rust harness /verif/harness records events from / replays TLC behaviours into the real crate; python driver /verif/check"}],
        "checks": checks,
        "notes": "exit 0 held / 1 VIOLATION / 2 tool error. VERIF_SEED seeds every random choice. Known findings: /verif/known_findings.json (all eight defects found are fixed in /repo by 'fix:' commits).",
        "not_applicable": na,
    }
    json.dump(m, open(os.path.join(os.path.dirname(__file__), "..", "MANIFEST.json"), "w"), indent=1)
    print("MANIFEST.json written:", len(checks), "checks,", len(na), "not applicable")

if __name__ == "__main__":
    main()
