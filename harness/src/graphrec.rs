//! Drivers of the graph domain: which inputs are run and which events each input produces.
use crate::graphdom::*;
use crate::graphdom2::*;
use crate::util::*;
use crate::with_kmer;
use crate::Args;
use debruijn::Kmer;
use serde_json::{json, Value};
use std::io::BufRead;

pub struct Which {
    pub compress: bool,
    pub graphq: bool,
    pub recompress: bool,
    pub prune: bool,
    pub pipeline: bool,
    pub strand: bool,
    pub iter: bool,
    pub export: bool,
    pub serde: bool,
    pub index: bool,
    pub lifecycle: bool,
    pub tmpdir: String,
    pub thorough: bool,
}

fn table_or_panic<K: Kmer>(sink: &Sink, inp: &GInput) -> Option<Vec<Row>> {
    let desc = json!({"op":"table","K":inp.k,"st":inp.stranded,"thr":inp.thr,"mode":inp.mode.name(),"reads":inp.reads});
    sink.begin_case(&desc);
    let res = guard(|| table_from_reads::<K>(&inp.reads, inp.stranded, inp.thr, inp.mode));
    sink.end_case();
    match res {
        Ok(r) => Some(r),
        Err(m) => {
            let mut e = desc;
            e["op"] = json!("compress");
            e["entry"] = json!("table");
            e["table"] = json!([]);
            e["nodes"] = json!([]);
            e["fam"] = json!(inp.fam);
            e["origin"] = json!("filter_kmers");
            e["case"] = json!(0);
            e["panic"] = json!(m);
            sink.emit(e);
            None
        }
    }
}

pub fn run_input<K: Kmer + Send + Sync + serde::Serialize + serde::de::DeserializeOwned>(sink: &Sink, r: &mut Rng, inp: &GInput, w: &Which) {
    if w.lifecycle && (inp.fam != "exhaustive" || w.thorough || r.chance(1, 3)) {
        lifecycle::<K>(sink, r, inp);
    }
    if w.pipeline && inp.mode == Mode::Sum {
        ev_pipeline::<K>(sink, r, inp);
    }
    if w.strand {
        let n = inp.reads.len();
        let inp2 = GInput { mode: Mode::Sum, ..inp.clone() };
        if n <= 4 && inp.k <= 8 {
            for mask in 1..(1u32 << n) {
                let flips: Vec<bool> = (0..n).map(|i| mask & (1 << i) != 0).collect();
                ev_strand::<K>(sink, r, &inp2, &flips);
            }
        } else {
            for _ in 0..(if w.thorough { 8 } else { 3 }) {
                let flips: Vec<bool> = (0..n).map(|_| r.chance(1, 2)).collect();
                ev_strand::<K>(sink, r, &inp2, &flips);
            }
        }
    }
    let raw = match table_or_panic::<K>(sink, inp) {
        Some(t) => t,
        None => return,
    };
    let pruned = if inp.thr > 1 {
        match guard(|| prune_rows::<K>(&raw, inp.stranded)) {
            Ok(p) => p,
            Err(_) => raw.clone(),
        }
    } else {
        raw.clone()
    };
    let mut nodes_pruned: Option<Vec<NodeP>> = None;
    if w.compress {
        // C01: any table (pruned or not); C02 clauses apply when the table is closed
        let use_raw = inp.thr > 1 && r.chance(1, 3);
        let t = if use_raw { &raw } else { &pruned };
        let origin = if use_raw { "filter" } else { "filter+prune" };
        let n1 = ev_compress::<K>(sink, inp, t, "hash", origin);
        ev_compress::<K>(sink, inp, t, "slice", origin);
        if inp.mode != Mode::Colour || r.chance(1, 2) {
            ev_compress::<K>(sink, inp, t, "noexts", origin);
        }
        if !use_raw {
            nodes_pruned = n1;
        }
    }
    if !(w.graphq || w.recompress || w.prune || w.iter || w.export || w.serde || w.index) {
        return;
    }
    let nodes = match nodes_pruned {
        Some(n) => n,
        None => match guard(|| project_base(&compress_rows::<K>(&pruned, inp.stranded, inp.mode, "hash"))) {
            Ok(n) => n,
            Err(_) => return,
        },
    };
    if w.graphq {
        ev_graphq::<K>(sink, r, inp, &nodes, "compress");
        // the same queries on the graph that compress_graph builds from the one-k-mer-per-node graph
        if r.chance(1, 2) {
            let spec = Spec { mode: inp.mode };
            if let Ok(rc) = guard(|| project_graph(&debruijn::compression::compress_graph(inp.stranded, &spec, one_per_kmer::<K>(&pruned, inp.stranded).finish(), None))) {
                ev_graphq::<K>(sink, r, inp, &rc, "recompressed");
            }
        }
    }
    if w.graphq && raw != pruned {
        // the queries on the graph the library builds when the thresholded table is NOT pruned first: some extensions dangle
        if let Ok(un) = guard(|| project_base(&compress_rows::<K>(&raw, inp.stranded, inp.mode, "hash"))) {
            ev_graphq::<K>(sink, r, inp, &un, "unpruned");
        }
    }
    if w.iter {
        ev_iter::<K>(sink, r, inp, &nodes);
    }
    if w.export {
        ev_export::<K>(sink, inp, &nodes, &w.tmpdir);
        // the graph the library builds when the table is NOT pruned first (filter_kmers with a threshold, then
        // compress_kmers_with_hash): extension bits towards dropped k-mers survive as dangling extensions
        // (when nothing dangles by itself, every third k-mer is dropped from the table with the others' extensions kept)
        let holed: Vec<Row> = if raw != pruned { raw.clone() } else { raw.iter().enumerate().filter(|(i, _)| i % 3 != 1).map(|(_, x)| x.clone()).collect() };
        if holed.len() >= 2 && r.chance(1, 2) {
            if let Ok(un) = guard(|| project_base(&compress_rows::<K>(&holed, inp.stranded, inp.mode, "hash"))) {
                ev_export::<K>(sink, inp, &un, &w.tmpdir);
            }
        }
    }
    if w.serde {
        ev_serde::<K>(sink, r, inp, &nodes);
    }
    if w.index {
        let pools: Vec<usize> = if w.thorough { vec![1, 2, 3, 4, 8, 16] } else { vec![1, 2, 4, 16] };
        ev_index::<K>(sink, r, inp, &nodes, &pools, if w.thorough { 3 } else { 2 }, true);
    }
    if w.prune {
        ev_prune::<K>(sink, r, inp, &raw);
        ev_fixexts::<K>(sink, r, inp, &nodes);
    }
    if w.recompress {
        let opk: Vec<NodeP> = pruned
            .iter()
            .map(|x| NodeP { s: x.k.clone(), l: x.l.clone(), r: x.r.clone(), d: x.d.clone() })
            .collect();
        // one k-mer per node -> same partition as direct compression
        ev_recompress::<K>(sink, inp, &opk, &[], "one-per-kmer/none");
        // already compressed -> unchanged
        let again = ev_recompress::<K>(sink, inp, &nodes, &[], "compressed/none");
        // random censor sets on both shapes
        for (g, tag) in [(&opk, "one-per-kmer/censor"), (&nodes, "compressed/censor")] {
            if g.is_empty() {
                continue;
            }
            let p = r.range(1, 3);
            let mut cens: Vec<usize> = (0..g.len()).filter(|_| r.chance(p, 6)).collect();
            // the censor list is a plain Vec: any order, repeats allowed
            if r.chance(1, 2) {
                r.shuffle(&mut cens);
                if !cens.is_empty() && r.chance(1, 2) {
                    let x = *r.pick(&cens);
                    let at = r.below(cens.len() + 1);
                    cens.insert(at, x);
                }
            }
            ev_recompress::<K>(sink, inp, g, &cens, tag);
        }
        // tip cleaning: CleanGraph::find_bad_nodes as the censor set
        let tips = guard(|| {
            let dbg = base_from_nodes::<K>(&nodes, inp.stranded).finish();
            let k = inp.k;
            let cg = debruijn::clean_graph::CleanGraph::new(|n: &debruijn::graph::Node<'_, K, D>| n.len() < 2 * k);
            cg.find_bad_nodes(&dbg)
        });
        if let Ok(t) = tips {
            if !t.is_empty() {
                ev_recompress::<K>(sink, inp, &nodes, &t, "compressed/tips");
            }
        }
        // partially compressed graph: the unpruned table's graph (dangling extensions), and a second round
        if inp.thr > 1 {
            if let Ok(n2) = guard(|| project_base(&compress_rows::<K>(&raw, inp.stranded, inp.mode, "hash"))) {
                ev_recompress::<K>(sink, inp, &n2, &[], "unpruned/none");
            }
        }
        if let Some(a) = again {
            if r.chance(1, 3) && !a.is_empty() {
                let mut cens: Vec<usize> = (0..a.len()).filter(|_| r.chance(1, 4)).collect();
                if r.chance(1, 2) {
                    cens.reverse();
                }
                ev_recompress::<K>(sink, inp, &a, &cens, "second-round/censor");
            }
        }
    }
}

fn which_from(args: &Args) -> Which {
    let ev = args.list("events");
    let has = |s: &str| ev.is_empty() || ev.iter().any(|x| x == s);
    let out = args.get("out", "");
    let tmpdir = std::path::Path::new(&out).parent().map(|p| p.to_string_lossy().to_string()).unwrap_or_else(|| ".".into());
    Which {
        compress: has("compress"),
        graphq: has("graphq"),
        recompress: has("recompress"),
        prune: has("prune"),
        pipeline: has("pipeline"),
        strand: has("strand"),
        iter: has("iter"),
        export: has("export"),
        serde: has("serde"),
        index: has("index"),
        lifecycle: ev.iter().any(|x| x == "lifecycle"),
        tmpdir: if tmpdir.is_empty() { ".".into() } else { tmpdir },
        thorough: args.thorough(),
    }
}

pub fn record(sink: &Sink, args: &Args) {
    let seed = args.num("seed", 1);
    let w = which_from(args);
    let n = args.num("n", 200) as usize;
    let exh = args.get("exhaustive", "");
    let mut r = Rng::new(seed);
    if !exh.is_empty() {
        // exhaustive small scope: "K:alpha:minlen:maxlen" e.g. "4:0123:4:6" ; both strandedness values
        for spec in exh.split(';') {
            let p: Vec<&str> = spec.split(':').collect();
            let k: usize = p[0].parse().unwrap();
            let alpha: Vec<u8> = p[1].bytes().map(|c| c - b'0').collect();
            let lo: usize = p[2].parse().unwrap();
            let hi: usize = p[3].parse().unwrap();
            for len in lo..=hi {
                let total = (alpha.len() as u64).pow(len as u32);
                for idx in 0..total {
                    let s = nth_string(idx, len, &alpha);
                    for st in [false, true] {
                        let inp = GInput { reads: vec![s.clone()], k, stranded: st, thr: 1, mode: Mode::Sum, fam: "exhaustive" };
                        with_kmer!(k, run_input(sink, &mut r, &inp, &w));
                    }
                }
            }
        }
    }
    for _ in 0..n {
        // long reads (nodes >= 256 bases) only where the oracle does not have to group their k-mers: exports and persistence
        let allow_long = w.export && !(w.graphq || w.compress || w.recompress || w.pipeline || w.strand || w.prune || w.lifecycle);
        let inp = gen_input(&mut r, &GRAPH_KS, allow_long);
        let k = inp.k;
        with_kmer!(k, run_input(sink, &mut r, &inp, &w));
    }
    // C19 on hand-built graphs (BaseGraph::add is public): multi-k-mer nodes with unrelated ends, some of them starting or
    // ending with a k-mer that is its own reverse complement - shapes the compressors never produce
    if w.index {
        for _ in 0..(n / 3 + 2) {
            let k = *r.pick(&[4usize, 5, 6, 8, 16]);
            let st = r.chance(1, 3);
            let nn = r.range(1, 12);
            let nodes = big_nodes(&mut r, k, nn, st);
            let inp = GInput { reads: vec![], k, stranded: st, thr: 1, mode: Mode::Sum, fam: "hand-built" };
            let pools: Vec<usize> = vec![1, 4];
            with_kmer!(k, ev_index(sink, &mut r, &inp, &nodes, &pools, 1, true));
        }
    }
    // C19 at scale: >= 10^5 single-k-mer nodes so that the parallel index builder really splits the work
    let big = args.num("big", 0) as usize;
    if big > 0 {
        for (k, st) in [(16usize, false), (20, true)] {
            let nodes = big_nodes(&mut r, k, big, st);
            let inp = GInput { reads: vec![], k, stranded: st, thr: 1, mode: Mode::Sum, fam: "big" };
            let pools: Vec<usize> = vec![1, 2, 3, 4, 8, 16];
            with_kmer!(k, ev_index(sink, &mut r, &inp, &nodes, &pools, if w.thorough { 4 } else { 2 }, false));
        }
    }
}

/// Replay TLC-generated behaviours: each line is {"K","st","inp":[..],"table":[..],"nodes":[..]} (final states of
/// CompressImpl). The table is run through the three real entry points; events go to the trace validator, and
/// the real node set is compared with the model's node set for that seed order family (MODEL-DRIFT info only).
pub fn replay(sink: &Sink, args: &Args) {
    let inp_path = args.get("in", "");
    let f = std::fs::File::open(&inp_path).expect("cannot open --in");
    let mut seen = std::collections::HashSet::new();
    for line in std::io::BufReader::new(f).lines() {
        let line = line.unwrap();
        let v: Value = match serde_json::from_str(&line) {
            Ok(v) => v,
            Err(_) => continue,
        };
        let k = v["K"].as_u64().unwrap() as usize;
        let st = v["st"].as_bool().unwrap();
        if v["tag"].as_str() == Some("REPLAY-EXPORT") {
            // a finished graph of the export model: hand it to the real exports, the trace spec judges what they write
            let key = format!("E|{}|{}|{}", k, st, v["nodes"]);
            if !seen.insert(key) {
                continue;
            }
            let reads: Vec<Vec<u8>> = v["inp"].as_array().map(|a| a.iter().map(jbytes).collect()).unwrap_or_default();
            let inp = GInput { reads, k, stranded: st, thr: 1, mode: Mode::Sum, fam: "tlc-export" };
            let nodes = nodes_from_json(&v["nodes"]);
            let tmpdir = std::path::Path::new(&args.get("out", "")).parent().map(|p| p.to_string_lossy().to_string()).unwrap_or_else(|| ".".into());
            with_kmer!(k, ev_export(sink, &inp, &nodes, &tmpdir));
            continue;
        }
        if v["tag"].as_str() == Some("REPLAY-GRAPHQ") {
            // a finished graph of the path model: the real find_link / edges / walks / max_path on it
            let key = format!("Q|{}|{}|{}", k, st, v["nodes"]);
            if !seen.insert(key) {
                continue;
            }
            let reads: Vec<Vec<u8>> = v["inp"].as_array().map(|a| a.iter().map(jbytes).collect()).unwrap_or_default();
            let inp = GInput { reads, k, stranded: st, thr: 1, mode: Mode::Sum, fam: "tlc-path" };
            let nodes = nodes_from_json(&v["nodes"]);
            let mut r = Rng::new(7);
            with_kmer!(k, ev_graphq(sink, &mut r, &inp, &nodes, "tlc-path"));
            continue;
        }
        let rows = rows_from_json(&v["table"]);
        let key = format!("{}|{}|{}", k, st, rows_json(&rows));
        if !seen.insert(key) {
            continue;
        }
        let reads: Vec<Vec<u8>> = v["inp"].as_array().map(|a| a.iter().map(jbytes).collect()).unwrap_or_default();
        let mode = Mode::parse(v["mode"].as_str().unwrap_or("sum"));
        let inp = GInput { reads, k, stranded: st, thr: 1, mode, fam: "tlc" };
        for entry in ["hash", "slice", "noexts"] {
            with_kmer!(k, ev_compress(sink, &inp, &rows, entry, "tlc-model"));
        }
    }
}

/// Re-execute recorded graph-domain events on the current tree: the inputs are taken from the event, the call is
/// made again, a fresh event is emitted (to be judged by the trace spec again).
pub fn rerun(sink: &Sink, args: &Args) {
    let f = std::fs::File::open(args.get("in", "")).expect("cannot open --in");
    let tmpdir = std::path::Path::new(&args.get("out", "")).parent().map(|p| p.to_string_lossy().to_string()).unwrap_or_else(|| ".".into());
    let mut r = Rng::new(args.num("seed", 1));
    for line in std::io::BufReader::new(f).lines() {
        let line = line.unwrap();
        let v: Value = match serde_json::from_str(&line) {
            Ok(v) => v,
            Err(_) => continue,
        };
        let k = v["K"].as_u64().unwrap_or(0) as usize;
        if k == 0 {
            continue;
        }
        let reads: Vec<Vec<u8>> = v["reads"].as_array().map(|a| a.iter().map(jbytes).collect()).unwrap_or_default();
        let inp = GInput { reads, k, stranded: v["st"].as_bool().unwrap_or(false), thr: v["thr"].as_u64().unwrap_or(1) as usize,
            mode: Mode::parse(v["mode"].as_str().unwrap_or("sum")), fam: "rerun" };
        match v["op"].as_str().unwrap_or("") {
            "compress" => {
                let rows = rows_from_json(&v["table"]);
                let entry = v["entry"].as_str().unwrap_or("hash").to_string();
                with_kmer!(k, ev_compress(sink, &inp, &rows, &entry, "rerun"));
            }
            "recompress" => {
                let g = nodes_from_json(&v["g"]);
                let cens: Vec<usize> = v["censor"].as_array().map(|a| a.iter().map(|x| x.as_u64().unwrap_or(0) as usize).collect()).unwrap_or_default();
                let origin = v["origin"].as_str().unwrap_or("rerun/censor").to_string();
                with_kmer!(k, ev_recompress(sink, &inp, &g, &cens, &origin));
            }
            "graphq" => {
                let nodes = nodes_from_json(&v["nodes"]);
                with_kmer!(k, ev_graphq(sink, &mut r, &inp, &nodes, "rerun"));
            }
            "export" => {
                let nodes = nodes_from_json(&v["nodes"]);
                with_kmer!(k, ev_export(sink, &inp, &nodes, &tmpdir));
            }
            "serde" => {
                let nodes = nodes_from_json(&v["nodes"]);
                with_kmer!(k, ev_serde(sink, &mut r, &inp, &nodes));
            }
            "iterall" => {
                let nodes = nodes_from_json(&v["nodes"]);
                with_kmer!(k, ev_iter(sink, &mut r, &inp, &nodes));
            }
            "pipeline" => {
                with_kmer!(k, ev_pipeline(sink, &mut r, &inp));
            }
            _ => {}
        }
    }
}
