//! Graph domain: tables, compression entry points, finished-graph queries, re-compression,
//! sharded pipeline, strand symmetry, exports, node iterators, index construction.
//! Everything is observed through the public API and projected to plain JSON.
use crate::util::*;
use boomphf::hashmap::BoomHashMap2;
use debruijn::compression::{
    compress_graph, compress_kmers, compress_kmers_no_exts, compress_kmers_with_hash,
    CompressionSpec, ScmapCompress, SimpleCompress,
};
use debruijn::filter::{self, CountFilter, CountFilterSet};
use debruijn::graph::{BaseGraph, DebruijnGraph};
use debruijn::{Dir, DnaBytes, Exts, Kmer};
use serde_json::{json, Value};

pub type D = Vec<u32>;

#[derive(Clone, Copy, PartialEq, Eq, Debug)]
pub enum Mode {
    Sum,
    Ids,
    Colour,
}
impl Mode {
    pub fn name(self) -> &'static str {
        match self {
            Mode::Sum => "sum",
            Mode::Ids => "ids",
            Mode::Colour => "colour",
        }
    }
    pub fn parse(s: &str) -> Mode {
        match s {
            "sum" => Mode::Sum,
            "ids" => Mode::Ids,
            _ => Mode::Colour,
        }
    }
}

/// The caller's reduction / join predicate, delegating to the library's two implementations.
pub struct Spec {
    pub mode: Mode,
}
fn merge_sorted(mut a: D, b: &D) -> D {
    a.extend(b.iter().cloned());
    a.sort();
    a
}
impl CompressionSpec<D> for Spec {
    fn reduce(&self, a: D, b: &D) -> D {
        match self.mode {
            Mode::Sum => SimpleCompress::new(|x: D, y: &D| vec![x[0] + y[0]]).reduce(a, b),
            Mode::Ids => SimpleCompress::new(merge_sorted).reduce(a, b),
            Mode::Colour => ScmapCompress::<D>::new().reduce(a, b),
        }
    }
    fn join_test(&self, a: &D, b: &D) -> bool {
        match self.mode {
            Mode::Sum => SimpleCompress::new(|x: D, y: &D| vec![x[0] + y[0]]).join_test(a, b),
            Mode::Ids => SimpleCompress::new(merge_sorted).join_test(a, b),
            Mode::Colour => ScmapCompress::<D>::new().join_test(a, b),
        }
    }
}

#[derive(Clone, Debug, PartialEq, Eq, PartialOrd, Ord)]
pub struct Row {
    pub k: Vec<u8>,
    pub l: Vec<u8>,
    pub r: Vec<u8>,
    pub d: D,
}
#[derive(Clone, Debug, PartialEq, Eq, PartialOrd, Ord)]
pub struct NodeP {
    pub s: Vec<u8>,
    pub l: Vec<u8>,
    pub r: Vec<u8>,
    pub d: D,
}

pub fn rows_json(rows: &[Row]) -> Value {
    Value::Array(
        rows.iter()
            .map(|r| json!({"k": r.k, "l": r.l, "r": r.r, "d": r.d}))
            .collect(),
    )
}
pub fn nodes_json(nodes: &[NodeP]) -> Value {
    Value::Array(
        nodes
            .iter()
            .map(|n| json!({"s": n.s, "l": n.l, "r": n.r, "d": n.d}))
            .collect(),
    )
}
pub fn rows_from_json(v: &Value) -> Vec<Row> {
    v.as_array()
        .map(|a| {
            a.iter()
                .map(|r| Row {
                    k: jbytes(&r["k"]),
                    l: jbytes(&r["l"]),
                    r: jbytes(&r["r"]),
                    d: r["d"]
                        .as_array()
                        .map(|x| x.iter().map(|y| y.as_u64().unwrap_or(0) as u32).collect())
                        .unwrap_or_default(),
                })
                .collect()
        })
        .unwrap_or_default()
}
pub fn nodes_from_json(v: &Value) -> Vec<NodeP> {
    v.as_array()
        .map(|a| {
            a.iter()
                .map(|r| NodeP {
                    s: jbytes(&r["s"]),
                    l: jbytes(&r["l"]),
                    r: jbytes(&r["r"]),
                    d: r["d"]
                        .as_array()
                        .map(|x| x.iter().map(|y| y.as_u64().unwrap_or(0) as u32).collect())
                        .unwrap_or_default(),
                })
                .collect()
        })
        .unwrap_or_default()
}

/// filter_kmers over whole reads (one label per read) -> sorted table with the payload of `mode`.
pub fn table_from_reads<K: Kmer>(
    reads: &[Vec<u8>],
    stranded: bool,
    thr: usize,
    mode: Mode,
) -> Vec<Row> {
    let seqs: Vec<(DnaBytes, Exts, u32)> = reads
        .iter()
        .enumerate()
        .map(|(i, r)| (DnaBytes(r.clone()), Exts::empty(), i as u32))
        .collect();
    let mut rows: Vec<Row> = Vec::new();
    match mode {
        Mode::Colour => {
            let (map, _): (BoomHashMap2<K, Exts, Vec<u32>>, _) = filter::filter_kmers(
                &seqs,
                &Box::new(CountFilterSet::new(thr)),
                stranded,
                false,
                4,
            );
            for (k, e, d) in map.iter() {
                rows.push(Row {
                    k: mer_bases(k),
                    l: exts_l(*e),
                    r: exts_r(*e),
                    d: d.clone(),
                });
            }
        }
        _ => {
            let (map, _): (BoomHashMap2<K, Exts, u16>, _) =
                filter::filter_kmers(&seqs, &Box::new(CountFilter::new(thr)), stranded, false, 4);
            for (k, e, d) in map.iter() {
                rows.push(Row {
                    k: mer_bases(k),
                    l: exts_l(*e),
                    r: exts_r(*e),
                    d: vec![*d as u32],
                });
            }
        }
    }
    rows.sort();
    if mode == Mode::Ids {
        for (i, r) in rows.iter_mut().enumerate() {
            r.d = vec![i as u32];
        }
    }
    rows
}

pub fn typed_rows<K: Kmer>(rows: &[Row]) -> Vec<(K, (Exts, D))> {
    rows.iter()
        .map(|r| (K::from_bytes(&r.k), (exts_from(&r.l, &r.r), r.d.clone())))
        .collect()
}
pub fn untyped_rows<K: Kmer>(t: &[(K, (Exts, D))]) -> Vec<Row> {
    t.iter()
        .map(|(k, (e, d))| Row {
            k: mer_bases(k),
            l: exts_l(*e),
            r: exts_r(*e),
            d: d.clone(),
        })
        .collect()
}

/// remove_censored_exts on a sorted table
pub fn prune_rows<K: Kmer>(rows: &[Row], stranded: bool) -> Vec<Row> {
    let mut t = typed_rows::<K>(rows);
    t.sort_by_key(|x| x.0);
    filter::remove_censored_exts(stranded, &mut t);
    untyped_rows(&t)
}

pub fn project_base<K: Kmer>(g: &BaseGraph<K, D>) -> Vec<NodeP> {
    (0..g.len())
        .map(|i| {
            let s = g.sequences.get(i);
            NodeP {
                s: mer_bases(&s),
                l: exts_l(g.exts[i]),
                r: exts_r(g.exts[i]),
                d: g.data[i].clone(),
            }
        })
        .collect()
}
pub fn project_graph<K: Kmer>(g: &DebruijnGraph<K, D>) -> Vec<NodeP> {
    project_base(&g.base)
}

pub fn base_from_nodes<K: Kmer>(nodes: &[NodeP], stranded: bool) -> BaseGraph<K, D> {
    let mut g: BaseGraph<K, D> = BaseGraph::new(stranded);
    for n in nodes {
        g.add(n.s.iter(), exts_from(&n.l, &n.r), n.d.clone());
    }
    g
}

/// Run one of the three construction entry points.
pub fn compress_rows<K: Kmer>(
    rows: &[Row],
    stranded: bool,
    mode: Mode,
    entry: &str,
) -> BaseGraph<K, D> {
    let spec = Spec { mode };
    match entry {
        "hash" => {
            let mut keys = Vec::new();
            let mut exts = Vec::new();
            let mut data = Vec::new();
            for r in rows {
                keys.push(K::from_bytes(&r.k));
                exts.push(exts_from(&r.l, &r.r));
                data.push(r.d.clone());
            }
            let index = BoomHashMap2::new(keys, exts, data);
            compress_kmers_with_hash(stranded, &spec, &index)
        }
        "slice" => {
            let t = typed_rows::<K>(rows);
            compress_kmers(stranded, &spec, &t)
        }
        "noexts" => {
            let t: Vec<(K, D)> = rows
                .iter()
                .map(|r| (K::from_bytes(&r.k), r.d.clone()))
                .collect();
            compress_kmers_no_exts(stranded, &spec, &t)
        }
        other => panic!("unknown entry {}", other),
    }
}

pub fn one_per_kmer<K: Kmer>(rows: &[Row], stranded: bool) -> BaseGraph<K, D> {
    let mut g: BaseGraph<K, D> = BaseGraph::new(stranded);
    for r in rows {
        g.add(r.k.iter(), exts_from(&r.l, &r.r), r.d.clone());
    }
    g
}

pub fn link_json(a: Option<(usize, Dir, bool)>) -> Value {
    match a {
        None => json!([]),
        Some((n, d, f)) => json!([n, dir_str(d), f]),
    }
}

// ---------------------------------------------------------------------------------------------
// input generation

#[derive(Clone, Debug)]
pub struct GInput {
    pub reads: Vec<Vec<u8>>,
    pub k: usize,
    pub stranded: bool,
    pub thr: usize,
    pub mode: Mode,
    pub fam: &'static str,
}

pub fn ginput_json(g: &GInput) -> Value {
    json!({"K": g.k, "st": g.stranded, "thr": g.thr, "mode": g.mode.name(), "reads": g.reads, "fam": g.fam})
}

pub const GRAPH_KS: [usize; 12] = [4, 5, 6, 8, 12, 15, 16, 20, 31, 32, 48, 64];

fn palindrome(r: &mut Rng, half: usize, alpha: &[u8]) -> Vec<u8> {
    let h = r.dna(half, alpha);
    let mut s = h.clone();
    s.extend(rc_bytes(&h));
    s
}

/// Structured + random read sets in which repeats, palindromes, hairpins and cycles are dense.
pub fn gen_reads(r: &mut Rng, k: usize) -> (Vec<Vec<u8>>, &'static str) {
    let alphas: [&[u8]; 5] = [&[0, 3], &[1, 2], &[0, 1, 3], &[0, 1, 2, 3], &[0, 1, 2, 3]];
    let alpha = *r.pick(&alphas);
    let fam = r.below(14);
    match fam {
        0 => {
            // homopolymer / short-period tandem repeat
            let period = r.range(1, k + 1);
            let unit = r.dna(period, alpha);
            let len = r.range(k, k + 2 * period + 6);
            ((0..1).map(|_| (0..len).map(|i| unit[i % period]).collect()).collect(), "tandem")
        }
        1 => {
            // even-length palindrome embedded in flanks
            let half = r.range(k / 2, k + 2);
            let mut s = r.dna_range(0, 4, &[0, 1, 2, 3]);
            s.extend(palindrome(r, half, alpha));
            s.extend(r.dna_range(0, 4, &[0, 1, 2, 3]));
            if s.len() < k {
                s.extend(r.dna(k - s.len(), alpha));
            }
            (vec![s], "palindrome")
        }
        2 => {
            // hairpin: a . s . comp-rev(a) with palindromic core
            let a = r.dna_range(1, k + 2, &[0, 1, 2, 3]);
            let core = { let h = r.range(0, k / 2 + 1); palindrome(r, h, alpha) };
            let mut s = a.clone();
            s.extend(core);
            s.extend(rc_bytes(&a));
            while s.len() < k {
                s.push(r.base());
            }
            (vec![s], "hairpin")
        }
        3 => {
            // isolated cycle: unit repeated so that every k-mer of the cycle is present
            let unit = r.dna_range(2, k + 4, &[0, 1, 2, 3]);
            let len = unit.len() + k + r.range(0, 3);
            (vec![(0..len).map(|i| unit[i % unit.len()]).collect()], "cycle")
        }
        4 => {
            // two reads sharing a middle segment (branching in and out)
            let mid = r.dna_range(k.saturating_sub(1), k + 6, alpha);
            let mut a = r.dna_range(1, k + 3, &[0, 1, 2, 3]);
            a.extend(mid.clone());
            a.extend(r.dna_range(1, k + 3, &[0, 1, 2, 3]));
            let mut b = r.dna_range(1, k + 3, &[0, 1, 2, 3]);
            b.extend(mid);
            b.extend(r.dna_range(1, k + 3, &[0, 1, 2, 3]));
            (vec![a, b], "shared-middle")
        }
        5 => {
            // a read and its reverse complement (plus a copy)
            let s = r.dna_range(k, k + 20, alpha);
            let mut v = vec![s.clone(), rc_bytes(&s)];
            if r.chance(1, 2) {
                v.push(s);
            }
            (v, "read+rc")
        }
        6 => {
            // figure-eight: x A x B x  (x of length k-1 .. k+1)
            let x = r.dna_range(k.saturating_sub(1), k + 1, &[0, 1, 2, 3]);
            let mut s = x.clone();
            s.extend(r.dna_range(1, 6, &[0, 1, 2, 3]));
            s.extend(x.clone());
            s.extend(r.dna_range(1, 6, &[0, 1, 2, 3]));
            s.extend(x);
            (vec![s], "figure-eight")
        }
        7 => {
            // coverage 2-3 of a random read with an error branch (tips)
            let s = r.dna_range(k + 2, k + 30, &[0, 1, 2, 3]);
            let mut v = vec![s.clone(), s.clone()];
            let mut e = s.clone();
            let cut = r.range(k / 2 + 1, e.len() - 1);
            e.truncate(cut);
            e.extend(r.dna_range(1, 5, &[0, 1, 2, 3]));
            v.push(e.clone());
            if r.chance(1, 2) {
                v.push(e);
            }
            (v, "coverage+tip")
        }
        10 => {
            // a run of A (the all-zero k-mer, K::empty()) or of T inside random flanks: nodes that start / end with A^K
            let b = *r.pick(&[0u8, 0, 3]);
            let mut s = r.dna_range(0, k + 3, &[0, 1, 2, 3]);
            s.extend(std::iter::repeat(b).take(r.range(k, k + 4)));
            s.extend(r.dna_range(0, k + 3, &[0, 1, 2, 3]));
            let mut v = vec![s];
            if r.chance(1, 2) {
                let mut t = r.dna_range(1, k, &[0, 1, 2, 3]);
                t.extend(std::iter::repeat(b).take(k));
                v.push(t);
            }
            (v, "poly-run")
        }
        8 | 9 => {
            // strand trap: k-mer X seen once (rejected at threshold 2) after a prefix seen twice, and rc(X) ending a
            // read seen twice: in stranded mode the dangling extension towards X must not resolve to rc(X)
            let x = r.dna(k, &[0, 1, 2, 3]);
            let mut a = r.dna_range(2, k + 4, &[0, 1, 2, 3]);
            a.extend_from_slice(&x);
            let a_short = a[..a.len() - 1].to_vec();
            let mut b = r.dna_range(2, k + 4, &[0, 1, 2, 3]);
            b.extend(rc_bytes(&x));
            let mut v = vec![a, a_short.clone(), a_short, b.clone(), b];
            if r.chance(1, 2) {
                // mirrored: the dangling extension on the left side
                v = v.iter().map(|s| rc_bytes(s)).collect();
            }
            (v, "strand-trap")
        }
        _ => {
            let n = r.range(1, 4);
            let v = (0..n)
                .map(|_| {
                    let len = r.range(k.saturating_sub(2), k + 40);
                    r.dna(len, alpha)
                })
                .collect();
            (v, "random")
        }
    }
}

pub fn gen_input(r: &mut Rng, ks: &[usize], allow_long: bool) -> GInput {
    // small K much more often: that is where repeats / palindromes / hairpins are dense
    let k = if r.chance(2, 3) {
        *r.pick(&[4usize, 5, 6])
    } else {
        *r.pick(ks)
    };
    let (mut reads, fam) = if allow_long && r.chance(1, 10) {
        // one long random read at a large K: nodes of 256 bases and more (renderings switch to a summary form there)
        let len = r.range(270, 600);
        (vec![r.dna(len, &[0, 1, 2, 3])], "long-read")
    } else {
        gen_reads(r, k)
    };
    let k = if fam == "long-read" { *r.pick(&[16usize, 20, 31, 32]) } else { k };
    let thr = if fam == "strand-trap" { 2 } else { *r.pick(&[1usize, 1, 1, 2, 2, 3]) };
    if thr > 1 && fam != "strand-trap" && r.chance(2, 3) {
        // raise coverage so that something survives the threshold
        let extra: Vec<Vec<u8>> = reads.clone();
        for _ in 1..thr {
            reads.extend(extra.iter().cloned());
        }
        if r.chance(1, 2) {
            let len = r.range(k, k + 12);
            reads.push(r.dna(len, &[0, 1, 2, 3]));
        }
    }
    let mode = *r.pick(&[Mode::Sum, Mode::Sum, Mode::Ids, Mode::Colour]);
    GInput {
        reads,
        k,
        stranded: r.chance(1, 2),
        thr,
        mode,
        fam,
    }
}

/// all strings of length `len` over `alpha`, in lexicographic order, by index
pub fn nth_string(mut idx: u64, len: usize, alpha: &[u8]) -> Vec<u8> {
    let mut s = vec![0u8; len];
    for i in (0..len).rev() {
        s[i] = alpha[(idx % alpha.len() as u64) as usize];
        idx /= alpha.len() as u64;
    }
    s
}

// ---------------------------------------------------------------------------------------------
// events

/// `compress` event: a table handed to one construction entry point and the graph it produced.
pub fn ev_compress<K: Kmer>(
    sink: &Sink,
    inp: &GInput,
    rows: &[Row],
    entry: &str,
    origin: &str,
) -> Option<Vec<NodeP>> {
    let desc = json!({"op":"compress","K":inp.k,"st":inp.stranded,"mode":inp.mode.name(),"entry":entry,
        "thr":inp.thr,"reads":inp.reads,"table":rows_json(rows),"fam":inp.fam,"origin":origin});
    let case = sink.begin_case(&desc);
    let res = guard(|| project_base(&compress_rows::<K>(rows, inp.stranded, inp.mode, entry)));
    sink.end_case();
    let mut ev = desc;
    ev["case"] = json!(case);
    match res {
        Ok(nodes) => {
            ev["nodes"] = nodes_json(&nodes);
            ev["panic"] = json!("");
            sink.emit(ev);
            Some(nodes)
        }
        Err(msg) => {
            ev["nodes"] = json!([]);
            ev["panic"] = json!(msg);
            sink.emit(ev);
            None
        }
    }
}

/// `recompress` event: a graph (as node list) given to finish + compress_graph with a censor list.
pub fn ev_recompress<K: Kmer + Send + Sync>(
    sink: &Sink,
    inp: &GInput,
    g: &[NodeP],
    censor: &[usize],
    origin: &str,
) -> Option<Vec<NodeP>> {
    let desc = json!({"op":"recompress","K":inp.k,"st":inp.stranded,"mode":inp.mode.name(),
        "reads":inp.reads,"g":nodes_json(g),"censor":censor,"fam":inp.fam,"origin":origin,"tips":origin.ends_with("tips")});
    let case = sink.begin_case(&desc);
    let res = guard(|| {
        let base = base_from_nodes::<K>(g, inp.stranded);
        let dbg = base.finish();
        let spec = Spec { mode: inp.mode };
        let cens = if censor.is_empty() && origin.ends_with("none") {
            None
        } else {
            Some(censor.to_vec())
        };
        let out = compress_graph(inp.stranded, &spec, dbg, cens);
        // resolvability of every remaining extension, observed through the public query
        let mut dangling = 0usize;
        for i in 0..out.len() {
            let n = out.get_node(i);
            for d in [Dir::Left, Dir::Right] {
                dangling += (n.exts().num_ext_dir(d) as usize) - n.edges(d).len();
            }
        }
        (project_graph(&out), dangling)
    });
    sink.end_case();
    let mut ev = desc;
    ev["case"] = json!(case);
    match res {
        Ok((nodes, dangling)) => {
            ev["out"] = nodes_json(&nodes);
            ev["dangling"] = json!(dangling);
            ev["panic"] = json!("");
            sink.emit(ev);
            Some(nodes)
        }
        Err(msg) => {
            ev["out"] = json!([]);
            ev["dangling"] = json!(0);
            ev["panic"] = json!(msg);
            sink.emit(ev);
            None
        }
    }
}

fn all_kmers_of(nodes: &[NodeP], k: usize) -> Vec<Vec<u8>> {
    let mut v = Vec::new();
    for n in nodes {
        if n.s.len() >= k {
            for i in 0..=(n.s.len() - k) {
                v.push(n.s[i..i + k].to_vec());
            }
        }
    }
    v
}

/// `graphq` event: finished-graph queries (find_link probes, edge lists, walks, best path).
pub fn ev_graphq<K: Kmer + Send + Sync>(
    sink: &Sink,
    r: &mut Rng,
    inp: &GInput,
    nodes: &[NodeP],
    origin: &str,
) {
    let k = inp.k;
    // probe set: terminal k-mers and their rc, their 8 extensions, interior k-mers, random absent ones
    let mut probes: Vec<(Vec<u8>, Dir)> = Vec::new();
    for n in nodes {
        if n.s.len() < k {
            continue;
        }
        let first = n.s[..k].to_vec();
        let last = n.s[n.s.len() - k..].to_vec();
        for t in [&first, &last] {
            for d in [Dir::Left, Dir::Right] {
                probes.push((t.clone(), d));
                probes.push((rc_bytes(t), d));
            }
        }
        for b in 0..4u8 {
            let mut x = last[1..].to_vec();
            x.push(b);
            probes.push((x, Dir::Right));
            let mut y = vec![b];
            y.extend_from_slice(&first[..k - 1]);
            probes.push((y, Dir::Left));
        }
    }
    let interior = all_kmers_of(nodes, k);
    for _ in 0..interior.len().min(12) {
        let x = r.pick(&interior).clone();
        probes.push((x.clone(), *r.pick(&[Dir::Left, Dir::Right])));
        probes.push((rc_bytes(&x), *r.pick(&[Dir::Left, Dir::Right])));
    }
    for _ in 0..8 {
        probes.push((r.dna(k, &[0, 1, 2, 3]), *r.pick(&[Dir::Left, Dir::Right])));
    }
    if probes.len() > 160 {
        r.shuffle(&mut probes);
        probes.truncate(160);
    }
    let solid_mode = r.below(3);
    let nwalks = 4;
    let walk_seeds: Vec<u64> = (0..nwalks).map(|_| r.next()).collect();
    let desc = json!({"op":"graphq","K":k,"st":inp.stranded,"thr":inp.thr,"mode":inp.mode.name(),"reads":inp.reads,
        "nodes":nodes_json(nodes),"fam":inp.fam,"origin":origin,"solid":solid_mode,
        "probe_in": probes.iter().map(|(x,d)| json!([x, dir_str(*d)])).collect::<Vec<_>>(), "walk_seeds": walk_seeds.iter().map(|s| s.to_string()).collect::<Vec<_>>()});
    let case = sink.begin_case(&desc);
    let res = guard(|| {
        let g = base_from_nodes::<K>(nodes, inp.stranded).finish();
        let pv: Vec<Value> = probes
            .iter()
            .map(|(x, d)| {
                let a = g.find_link(K::from_bytes(x), *d);
                json!({"k": x, "dir": dir_str(*d), "ans": link_json(a)})
            })
            .collect();
        let mut ev: Vec<Value> = Vec::new();
        for i in 0..g.len() {
            let n = g.get_node(i);
            for d in [Dir::Left, Dir::Right] {
                let e = n.edges(d);
                let viaside = match d {
                    Dir::Left => n.l_edges(),
                    Dir::Right => n.r_edges(),
                };
                let same = e.len() == viaside.len()
                    && e.iter().zip(viaside.iter()).all(|(a, b)| {
                        a.0 == b.0 && dir_str(a.1) == dir_str(b.1) && a.2 == b.2
                    });
                ev.push(json!({"n": i, "dir": dir_str(d), "same": same,
                    "e": e.iter().map(|x| json!([x.0, dir_str(x.1), x.2])).collect::<Vec<_>>()}));
            }
        }
        // random walks along reported edges
        let mut paths: Vec<Value> = Vec::new();
        if g.len() > 0 {
            for ws in &walk_seeds {
                let mut wr = Rng::new(*ws);
                let start = wr.below(g.len());
                let mut path: Vec<(usize, Dir)> = vec![(start, *wr.pick(&[Dir::Left, Dir::Right]))];
                for _ in 0..wr.range(0, 5) {
                    let (cur, inc) = *path.last().unwrap();
                    let edges = g.get_node(cur).edges(inc.flip());
                    if edges.is_empty() {
                        break;
                    }
                    let e = edges[wr.below(edges.len())];
                    path.push((e.0, e.1));
                }
                let s = g.sequence_of_path(path.iter());
                paths.push(json!({"p": path.iter().map(|x| json!([x.0, dir_str(x.1)])).collect::<Vec<_>>(), "s": mer_bases(&s)}));
            }
        }
        // best path: score = first payload component, solid predicate varies
        let mp = g.max_path(
            |d: &D| d.first().cloned().unwrap_or(0) as f32,
            |d: &D| match solid_mode {
                0 => true,
                1 => false,
                _ => d.first().cloned().unwrap_or(0) % 2 == 0,
            },
        );
        let mps = g.sequence_of_path(mp.iter());
        let maxpath = json!({"p": mp.iter().map(|x| json!([x.0, dir_str(x.1)])).collect::<Vec<_>>(), "s": mer_bases(&mps)});
        // beam search variant (its documented Cycle state may repeat the closing node)
        let bp = g.max_path_beam(3, |d: &D| d.first().cloned().unwrap_or(0) as f32, |_d: &D| true);
        let bps = g.sequence_of_path(bp.iter());
        let beam = json!({"p": bp.iter().map(|x| json!([x.0, dir_str(x.1)])).collect::<Vec<_>>(), "s": mer_bases(&bps)});
        (pv, ev, paths, maxpath, beam)
    });
    sink.end_case();
    let mut e = desc;
    e.as_object_mut().unwrap().remove("probe_in");
    e.as_object_mut().unwrap().remove("walk_seeds");
    e["case"] = json!(case);
    match res {
        Ok((pv, ev, paths, maxpath, beam)) => {
            e["beam"] = beam;
            e["probes"] = json!(pv);
            e["edges"] = json!(ev);
            e["paths"] = json!(paths);
            e["maxpath"] = maxpath;
            e["panic"] = json!("");
        }
        Err(msg) => {
            e["probes"] = json!([]);
            e["edges"] = json!([]);
            e["paths"] = json!([]);
            e["maxpath"] = json!({"p": [], "s": []});
            e["beam"] = json!({"p": [], "s": []});
            e["panic"] = json!(msg);
        }
    }
    sink.emit(e);
}

/// `prune` event: the three extension-pruning operations.
pub fn ev_prune<K: Kmer + Send + Sync>(sink: &Sink, r: &mut Rng, inp: &GInput, rows_all: &[Row]) {
    // remove_censored_exts / _sharded on a table from which a random subset has been censored
    let mut keep: Vec<Row> = Vec::new();
    let mut all: Vec<Vec<u8>> = Vec::new();
    let p_drop = r.range(0, 3);
    let p_unknown = r.range(0, 2);
    for row in rows_all {
        let dropped = r.chance(p_drop, 6);
        if !dropped {
            keep.push(row.clone());
        }
        // all_kmers = k-mers known to this shard: every kept one, and most censored ones
        if !dropped || !r.chance(p_unknown, 4) {
            all.push(row.k.clone());
        }
    }
    // the library's own two-call flow: filter_kmers(report_all_kmers = true) hands back the table AND the list of every
    // k-mer it saw; remove_censored_exts_sharded searches that list as returned
    let flow_thr = if inp.thr > 1 { inp.thr } else { 2 };
    let desc = json!({"op":"prune","K":inp.k,"st":inp.stranded,"reads":inp.reads,"fam":inp.fam,
        "before":rows_json(&keep),"all":all,"flow_thr":flow_thr});
    let case = sink.begin_case(&desc);
    let res = guard(|| {
        let seqs: Vec<(DnaBytes, Exts, u32)> = inp.reads.iter().enumerate().map(|(i, r)| (DnaBytes(r.clone()), Exts::empty(), i as u32)).collect();
        let (map, seen): (BoomHashMap2<K, Exts, u16>, Vec<K>) =
            filter::filter_kmers(&seqs, &Box::new(CountFilter::new(flow_thr)), inp.stranded, true, 4);
        let mut tf: Vec<(K, (Exts, D))> = map.iter().map(|(k, e, d)| (*k, (*e, vec![*d as u32]))).collect();
        tf.sort_by_key(|x| x.0);
        filter::remove_censored_exts_sharded(inp.stranded, &mut tf, &seen);
        let flow = untyped_rows(&tf);
        let mut t1 = typed_rows::<K>(&keep);
        t1.sort_by_key(|x| x.0);
        let mut t2 = t1.clone();
        filter::remove_censored_exts(inp.stranded, &mut t1);
        let mut allk: Vec<K> = all.iter().map(|x| K::from_bytes(x)).collect();
        allk.sort();
        filter::remove_censored_exts_sharded(inp.stranded, &mut t2, &allk);
        (untyped_rows(&t1), untyped_rows(&t2), flow)
    });
    sink.end_case();
    let mut e = desc;
    e["case"] = json!(case);
    match res {
        Ok((a, b, fl)) => {
            e["plain"] = rows_json(&a);
            e["sharded"] = rows_json(&b);
            e["flow"] = rows_json(&fl);
            e["panic"] = json!("");
        }
        Err(m) => {
            e["plain"] = json!([]);
            e["sharded"] = json!([]);
            e["flow"] = json!([]);
            e["panic"] = json!(m);
        }
    }
    sink.emit(e);
}

/// `fixexts` event: DebruijnGraph::fix_exts with and without a valid-node set.
pub fn ev_fixexts<K: Kmer + Send + Sync>(sink: &Sink, r: &mut Rng, inp: &GInput, nodes: &[NodeP]) {
    // corrupt: add spurious extensions so that there is something to remove
    let mut g: Vec<NodeP> = nodes.to_vec();
    for n in g.iter_mut() {
        if r.chance(1, 3) {
            let b = r.base();
            if r.chance(1, 2) {
                if !n.l.contains(&b) {
                    n.l.push(b);
                    n.l.sort();
                }
            } else if !n.r.contains(&b) {
                n.r.push(b);
                n.r.sort();
            }
        }
    }
    let use_valid = r.chance(2, 3);
    let valid: Vec<usize> = (0..g.len()).filter(|_| r.chance(3, 4)).collect();
    let desc = json!({"op":"fixexts","K":inp.k,"st":inp.stranded,"reads":inp.reads,"fam":inp.fam,
        "g":nodes_json(&g),"use_valid":use_valid,"valid":valid});
    let case = sink.begin_case(&desc);
    let res = guard(|| {
        let mut dbg = base_from_nodes::<K>(&g, inp.stranded).finish();
        if use_valid {
            let mut bs = bit_set::BitSet::with_capacity(g.len());
            for v in &valid {
                bs.insert(*v);
            }
            dbg.fix_exts(Some(&bs));
        } else {
            dbg.fix_exts(None);
        }
        project_graph(&dbg)
    });
    sink.end_case();
    let mut e = desc;
    e["case"] = json!(case);
    match res {
        Ok(a) => {
            e["after"] = nodes_json(&a);
            e["panic"] = json!("");
        }
        Err(m) => {
            e["after"] = json!([]);
            e["panic"] = json!(m);
        }
    }
    sink.emit(e);
}

pub fn nontrivial(inp: &GInput) -> bool {
    inp.fam != "random" || inp.reads.len() > 1
}
