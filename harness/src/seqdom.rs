//! Sequence-level domains: minimizer scanning (C07), shard assignment (C08), k-mer counting / filtering
//! with a chosen number of bucket passes (C05; uses the verif_hooks feature of the crate).
use crate::util::*;
use crate::Args;
use boomphf::hashmap::BoomHashMap2;
use debruijn::dna_string::DnaString;
use debruijn::filter::{self, CountFilter, CountFilterSet, KmerSummarizer};
use debruijn::msp::{self, Scanner};
use debruijn::vmer::{Lmer, Lmer1, Lmer2, Lmer3};
use debruijn::{DnaBytes, DnaSlice, Exts, Kmer, Mer, Vmer};
use serde_json::{json, Value};

// ------------------------------------------------------------------------------------------ C07 scanner

#[derive(Clone, Debug)]
pub enum Score {
    Rank,
    RevRank,
    Constant,
    AtCount,
    Mod3,
    Perm(Vec<usize>),
    RcMinPerm(Vec<usize>),
    Binary,
    Shifted,
    Hash64,
    ConstMax,
    MaskMax,
    BaseHash,
}
impl Score {
    fn name(&self) -> &'static str {
        match self {
            Score::Rank => "rank",
            Score::RevRank => "revrank",
            Score::Constant => "constant",
            Score::AtCount => "at_count",
            Score::Mod3 => "mod3",
            Score::Perm(_) => "perm",
            Score::RcMinPerm(_) => "rcmin-perm",
            Score::Binary => "binary",
            Score::Shifted => "rank<<32",
            Score::Hash64 => "hash64",
            Score::ConstMax => "const-usize-max",
            Score::MaskMax => "homopolymer-masked-usize-max",
            Score::BaseHash => "hash-of-bases",
        }
    }
    fn eval<P: Kmer>(&self, x: &P) -> usize {
        // wide p-mer types (K > 8 here) only get scores that need neither a rank nor a table of 4^p entries
        let n = if P::k() <= 8 { 1usize << (2 * P::k()) } else { 0 };
        match self {
            Score::BaseHash => {
                let mut z: u64 = 0xcbf29ce484222325;
                for i in 0..P::k() {
                    z = (z ^ (x.get(i) as u64 + 1)).wrapping_mul(0x100000001b3);
                }
                (z >> 7) as usize
            }
            Score::Rank => x.to_u64() as usize,
            Score::RevRank => n - 1 - x.to_u64() as usize,
            Score::Constant => 7,
            Score::AtCount => x.at_count() as usize,
            Score::Mod3 => (x.to_u64() % 3) as usize,
            Score::Perm(p) => p[x.to_u64() as usize],
            Score::RcMinPerm(p) => std::cmp::min(p[x.to_u64() as usize], p[x.rc().to_u64() as usize]),
            Score::Binary => (x.get(0) & 1) as usize,
            // scores far above 2^32: the scanner must compare the full usize
            Score::Shifted => ((n - 1 - x.to_u64() as usize) << 32) | 5,
            // the extreme value itself: a constant usize::MAX, and usize::MAX as a mask for low-complexity p-mers
            Score::ConstMax => usize::MAX,
            Score::MaskMax => {
                let b0 = x.get(0);
                if (1..P::k()).all(|i| x.get(i) == b0) { usize::MAX } else { x.to_u64() as usize }
            }
            Score::Hash64 => {
                let mut z = (x.to_u64()).wrapping_add(0x9E3779B97F4A7C15);
                z = (z ^ (z >> 30)).wrapping_mul(0xBF58476D1CE4E5B9);
                z = (z ^ (z >> 27)).wrapping_mul(0x94D049BB133111EB);
                ((z ^ (z >> 31)) | (1u64 << 40)) as usize
            }
        }
    }
}

fn gen_score(r: &mut Rng, p: usize) -> Score {
    if p > 8 {
        return match r.below(6) {
            0 => Score::Constant,
            1 => Score::AtCount,
            2 => Score::Binary,
            3 => Score::ConstMax,
            _ => Score::BaseHash,
        };
    }
    let n = 1usize << (2 * p);
    match r.below(13) {
        9 => Score::Shifted,
        10 => Score::Hash64,
        11 => Score::ConstMax,
        12 => Score::MaskMax,
        0 => Score::Rank,
        1 => Score::RevRank,
        2 => Score::Constant,
        3 => Score::AtCount,
        4 => Score::Mod3,
        5 | 6 => {
            let mut v: Vec<usize> = (0..n).collect();
            r.shuffle(&mut v);
            Score::Perm(v)
        }
        7 => {
            let mut v: Vec<usize> = (0..n).collect();
            r.shuffle(&mut v);
            Score::RcMinPerm(v)
        }
        _ => Score::Binary,
    }
}

/// order-preserving re-encoding of scores as dense ranks (TLC integers are 32 bit; the oracle only compares scores)
fn dense_ranks(v: &[usize]) -> Vec<usize> {
    let mut u: Vec<usize> = v.to_vec();
    u.sort();
    u.dedup();
    v.iter().map(|x| u.binary_search(x).unwrap()).collect()
}

fn scan_with<P: Kmer, V: Vmer>(v: &V, k: usize, score: &Score) -> Vec<Value> {
    let sc = |x: &P| score.eval(x);
    let scanner = Scanner::new(v, sc, k);
    scanner
        .scan()
        .iter()
        // (the bucket id is the p-mer's rank: only logged where it fits the oracle's 32-bit integers)
        .map(|i| json!({"start": i.start, "len": i.len, "mpos": i.minimizer_pos, "min": mer_bases(&i.minimizer), "bucket": if P::k() <= 8 { i.bucket() } else { 0 }}))
        .collect()
}

fn scan_event<P: Kmer>(sink: &Sink, r: &mut Rng) {
    let p = P::k();
    let k = if r.chance(1, 6) { p } else { r.range(p, if p >= 20 { p + 12 } else { std::cmp::min(p + 20, 40) }) };
    let alphas: [&[u8]; 5] = [&[0], &[0, 3], &[1, 2], &[0, 1, 3], &[0, 1, 2, 3]];
    let alpha = *r.pick(&alphas);
    let len = if r.chance(1, 5) { k } else { r.range(k, k + 60) };
    let mut seq = r.dna(len, alpha);
    if r.chance(1, 4) && len > 2 * p {
        // plant an exact repeat so that equal p-mers (ties) occur far apart
        let a = r.below(len - p);
        let b = r.below(len - p);
        for i in 0..p {
            seq[b + i] = seq[a + i];
        }
    }
    let score = gen_score(r, p);
    let vts = ["DnaBytes", "DnaString", "DnaSlice", "Lmer3", "slice", "rcslice"];
    let vt = *r.pick(&vts);
    let vt = if vt == "Lmer3" && len > 92 { "DnaBytes" } else { vt };
    let scores: Vec<usize> = if len >= p { (0..=(len - p)).map(|i| score.eval(&P::from_bytes(&seq[i..i + p]))).collect() } else { vec![] };
    let desc = json!({"op":"scan","k":k,"p":p,"seq":seq,"sc":dense_ranks(&scores),"score":score.name(),"vt":vt,"fn":"scanner"});
    let case = sink.begin_case(&desc);
    let res = guard(|| match vt {
        "DnaString" => scan_with::<P, _>(&DnaString::from_bytes(&seq), k, &score),
        "DnaSlice" => scan_with::<P, _>(&DnaSlice(&seq), k, &score),
        "Lmer3" => scan_with::<P, _>(&Lmer3::from_slice(&seq), k, &score),
        "slice" => {
            let mut padded = vec![1u8, 2, 3];
            padded.extend_from_slice(&seq);
            padded.push(0);
            let d = DnaString::from_bytes(&padded);
            let s = d.slice(3, 3 + seq.len());
            scan_with::<P, _>(&s, k, &score)
        }
        "rcslice" => {
            // the read as a reverse-complemented view that starts inside its backing string
            let mut padded = vec![3u8, 0, 2, 2, 1];
            padded.extend(rc_bytes(&seq));
            padded.extend_from_slice(&[1, 3]);
            let d = DnaString::from_bytes(&padded);
            let s = d.slice(5, 5 + seq.len()).rc();
            scan_with::<P, _>(&s, k, &score)
        }
        _ => scan_with::<P, _>(&DnaBytes(seq.clone()), k, &score),
    });
    sink.end_case();
    let mut e = desc;
    e["case"] = json!(case);
    match res {
        Ok(iv) => {
            e["iv"] = json!(iv);
            e["panic"] = json!("");
        }
        Err(m) => {
            e["iv"] = json!([]);
            e["panic"] = json!(m);
        }
    }
    sink.emit(e);
    // the deprecated wrapper: permutation scores, optional rc mode; intervals without minimizer position
    if p <= 8 && r.chance(1, 3) {
        let n = 1usize << (2 * p);
        let mut perm: Vec<usize> = (0..n).collect();
        if r.chance(2, 3) {
            r.shuffle(&mut perm);
        }
        let rc = r.chance(1, 2);
        let sc2 = if rc { Score::RcMinPerm(perm.clone()) } else { Score::Perm(perm.clone()) };
        let scores: Vec<usize> = (0..=(len - p)).map(|i| sc2.eval(&P::from_bytes(&seq[i..i + p]))).collect();
        let desc = json!({"op":"scan","k":k,"p":p,"seq":seq,"sc":dense_ranks(&scores),"score":"perm","vt":"DnaBytes","fn":"simple_scan","rc":rc});
        let case = sink.begin_case(&desc);
        #[allow(deprecated)]
        let res = guard(|| {
            msp::simple_scan::<_, P>(k, &DnaBytes(seq.clone()), &perm, rc)
                .iter()
                .map(|i| json!({"start": i.start(), "len": i.len(), "bucket": i.bucket(), "end": i.end(), "range": [i.range().start, i.range().end], "is_empty": i.is_empty()}))
                .collect::<Vec<_>>()
        });
        sink.end_case();
        let mut e = desc;
        e["case"] = json!(case);
        match res {
            Ok(iv) => {
                e["iv"] = json!(iv);
                e["panic"] = json!("");
            }
            Err(m) => {
                e["iv"] = json!([]);
                e["panic"] = json!(m);
            }
        }
        sink.emit(e);
    }
}

// ------------------------------------------------------------------------------------------ C08 msp_sequence

fn msp_pieces<P: Kmer, V: Vmer>(k: usize, read: &[u8], perm: Option<&[usize]>, rc: bool) -> Vec<Value> {
    msp::msp_sequence::<P, V>(k, read, perm, rc)
        .iter()
        .map(|(b, e, v)| json!({"bucket": b, "l": exts_l(*e), "r": exts_r(*e), "s": mer_bases(v)}))
        .collect()
}

fn msp_event<P: Kmer>(sink: &Sink, r: &mut Rng) {
    let p = P::k();
    let k = r.range(p + 1, std::cmp::min(p + 18, 36));
    let rc = r.chance(1, 2);
    let perm: Option<Vec<usize>> = if r.chance(1, 2) {
        let mut v: Vec<usize> = (0..(1usize << (2 * p))).collect();
        r.shuffle(&mut v);
        Some(v)
    } else {
        None
    };
    // reads with planted repeats and reverse-complement copies: the same k-mer recurs at different offsets,
    // in different reads and on both strands
    let alphas: [&[u8]; 3] = [&[0, 3], &[0, 1, 2, 3], &[0, 1, 2, 3]];
    let alpha = *r.pick(&alphas);
    let mut core = r.dna_range(k, k + 25, alpha);
    // periodic cores (after a short free head): several p-mers of one k-mer then agree on most of their bases, so any
    // score that looks at part of the p-mer only ties them and the choice among them depends on what preceded the k-mer
    if r.chance(1, 4) || (p > 8 && r.chance(1, 2)) {
        let period = r.range(1, 3);
        let head = r.range(0, 3);
        for i in (head + period)..core.len() {
            core[i] = core[i - period];
        }
    }
    let nreads = r.range(1, 4);
    let mut reads: Vec<Vec<u8>> = Vec::new();
    for _ in 0..nreads {
        let mut s = r.dna_range(0, 12, &[0, 1, 2, 3]);
        match r.below(4) {
            0 => s.extend(core.clone()),
            1 => s.extend(rc_bytes(&core)),
            2 => {
                s.extend(core.clone());
                s.extend(r.dna_range(0, 5, &[0, 1, 2, 3]));
                s.extend(core.clone());
            }
            _ => s.extend(r.dna_range(0, k + 10, alpha)),
        }
        s.extend(r.dna_range(0, 12, &[0, 1, 2, 3]));
        reads.push(s);
    }
    if r.chance(1, 5) {
        reads.push(r.dna_range(0, k - 1, &[0, 1, 2, 3])); // shorter than k: no pieces
    }
    let maxpiece = 2 * k - p;
    let mut vts = vec!["DnaBytes", "DnaString"];
    // a container is eligible when the library itself says it is large enough (msp_sequence asserts exactly this)
    if maxpiece <= <Lmer1 as Vmer>::max_len() {
        vts.push("Lmer1");
    }
    if maxpiece <= <Lmer2 as Vmer>::max_len() {
        vts.push("Lmer2");
    }
    if maxpiece <= <Lmer3 as Vmer>::max_len() {
        vts.push("Lmer3");
    }
    if maxpiece <= <Lmer<[u64; 4]> as Vmer>::max_len() {
        vts.push("Lmer4");
    }
    let vt = *r.pick(&vts);
    let desc = json!({"op":"msp","k":k,"p":p,"rc":rc,"perm":perm.clone().map(|v| if v.len() <= 256 { v } else { vec![] }).unwrap_or_default(),
        "has_perm": perm.is_some(),"vt":vt,"reads":reads});
    let case = sink.begin_case(&desc);
    let res = guard(|| {
        reads
            .iter()
            .map(|rd| {
                let pm = perm.as_deref();
                json!(match vt {
                    "DnaString" => msp_pieces::<P, DnaString>(k, rd, pm, rc),
                    "Lmer1" => msp_pieces::<P, Lmer1>(k, rd, pm, rc),
                    "Lmer2" => msp_pieces::<P, Lmer2>(k, rd, pm, rc),
                    "Lmer3" => msp_pieces::<P, Lmer3>(k, rd, pm, rc),
                    "Lmer4" => msp_pieces::<P, Lmer<[u64; 4]>>(k, rd, pm, rc),
                    _ => msp_pieces::<P, DnaBytes>(k, rd, pm, rc),
                })
            })
            .collect::<Vec<Value>>()
    });
    sink.end_case();
    let mut e = desc;
    e["case"] = json!(case);
    match res {
        Ok(pc) => {
            e["pieces"] = json!(pc);
            e["panic"] = json!("");
        }
        Err(m) => {
            e["pieces"] = json!([]);
            e["panic"] = json!(m);
        }
    }
    sink.emit(e);
}

// ------------------------------------------------------------------------------------------ C05 filter

/// A summarizer that records what it was given: the labels of the observations in the order received.
pub struct Recorder {
    min: usize,
}
impl KmerSummarizer<u32, Vec<u32>> for Recorder {
    fn summarize<K, F: Iterator<Item = (K, Exts, u32)>>(&self, items: F) -> (bool, Exts, Vec<u32>) {
        let mut all = Exts::empty();
        let mut out = Vec::new();
        for (_, e, d) in items {
            all = all.add(e);
            out.push(d);
        }
        (out.len() >= self.min, all, out)
    }
}

/// smallest `slices` value for which filter_kmers plans exactly `want` passes (None if unreachable)
pub fn slices_for_passes(want: usize) -> Option<usize> {
    for s in 1..=300usize {
        let sz = 256 / s + 1;
        let n = (256 + sz - 1) / sz;
        if n == want {
            return Some(s);
        }
    }
    None
}

fn run_filter<K: Kmer, V: Vmer>(
    seqs: &[(V, Exts, u32)],
    stranded: bool,
    min: usize,
    report_all: bool,
    mode: usize,
    slices: usize,
    probes: &[Vec<u8>],
) -> Value {
    // choose the memory unit so that `slices` comes out as requested: slices = kmer_mem / max_mem + 1
    let input_kmers: usize = seqs.iter().map(|s| s.0.len().saturating_sub(K::k() - 1)).sum();
    let kmer_mem = input_kmers * std::mem::size_of::<(K, u32)>();
    let unit = if slices <= 1 || kmer_mem == 0 { usize::MAX / 4 } else { std::cmp::max(1, kmer_mem / (slices - 1)) };
    debruijn::verif_hooks::set_bytes_per_unit(Some(unit));
    let out = match mode {
        0 => {
            let (map, all): (BoomHashMap2<K, Exts, u16>, Vec<K>) =
                filter::filter_kmers(seqs, &Box::new(CountFilter::new(min)), stranded, report_all, 1);
            let rows: Vec<Value> = map.iter().map(|(k, e, d)| json!({"k": mer_bases(k), "l": exts_l(*e), "r": exts_r(*e), "d": [*d]})).collect();
            let gets: Vec<Value> = probes.iter().map(|x| {
                let kk = K::from_bytes(x);
                json!({"k": x, "found": map.get(&kk).is_some(), "id": map.get_key_id(&kk).map(|v| v as i64).unwrap_or(-1)})}).collect();
            json!({"table": rows, "all": all.iter().map(mer_bases).collect::<Vec<_>>(), "gets": gets, "len": map.len()})
        }
        1 => {
            let (map, all): (BoomHashMap2<K, Exts, Vec<u32>>, Vec<K>) =
                filter::filter_kmers(seqs, &Box::new(CountFilterSet::new(min)), stranded, report_all, 1);
            let rows: Vec<Value> = map.iter().map(|(k, e, d)| json!({"k": mer_bases(k), "l": exts_l(*e), "r": exts_r(*e), "d": d})).collect();
            let gets: Vec<Value> = probes.iter().map(|x| {
                let kk = K::from_bytes(x);
                json!({"k": x, "found": map.get(&kk).is_some(), "id": map.get_key_id(&kk).map(|v| v as i64).unwrap_or(-1)})}).collect();
            json!({"table": rows, "all": all.iter().map(mer_bases).collect::<Vec<_>>(), "gets": gets, "len": map.len()})
        }
        _ => {
            let (map, all): (BoomHashMap2<K, Exts, Vec<u32>>, Vec<K>) =
                filter::filter_kmers(seqs, &Box::new(Recorder { min }), stranded, report_all, 1);
            let rows: Vec<Value> = map.iter().map(|(k, e, d)| json!({"k": mer_bases(k), "l": exts_l(*e), "r": exts_r(*e), "d": d})).collect();
            let gets: Vec<Value> = probes.iter().map(|x| {
                let kk = K::from_bytes(x);
                json!({"k": x, "found": map.get(&kk).is_some(), "id": map.get_key_id(&kk).map(|v| v as i64).unwrap_or(-1)})}).collect();
            json!({"table": rows, "all": all.iter().map(mer_bases).collect::<Vec<_>>(), "gets": gets, "len": map.len()})
        }
    };
    let passes = debruijn::verif_hooks::take_passes();
    debruijn::verif_hooks::set_bytes_per_unit(None);
    let mut o = out;
    o["passes"] = json!(passes.iter().map(|p| json!([p.0, p.1, p.2])).collect::<Vec<_>>());
    o
}

#[derive(Clone)]
pub struct FRead {
    s: Vec<u8>,
    l: Vec<u8>,
    r: Vec<u8>,
    label: u32,
}

fn filter_dyn<K: Kmer>(reads: &[FRead], vt: &str, stranded: bool, min: usize, report_all: bool, mode: usize, slices: usize, probes: &[Vec<u8>]) -> Value {
    match vt {
        "DnaString" => {
            let seqs: Vec<(DnaString, Exts, u32)> = reads.iter().map(|x| (DnaString::from_bytes(&x.s), exts_from(&x.l, &x.r), x.label)).collect();
            run_filter::<K, _>(&seqs, stranded, min, report_all, mode, slices, probes)
        }
        "DnaSlice" => {
            let seqs: Vec<(DnaSlice, Exts, u32)> = reads.iter().map(|x| (DnaSlice(&x.s), exts_from(&x.l, &x.r), x.label)).collect();
            run_filter::<K, _>(&seqs, stranded, min, report_all, mode, slices, probes)
        }
        "Lmer3" => {
            let seqs: Vec<(Lmer3, Exts, u32)> = reads.iter().map(|x| (Lmer3::from_slice(&x.s), exts_from(&x.l, &x.r), x.label)).collect();
            run_filter::<K, _>(&seqs, stranded, min, report_all, mode, slices, probes)
        }
        "slice" => {
            let owned: Vec<DnaString> = reads.iter().map(|x| {
                let mut p = vec![2u8, 1];
                p.extend_from_slice(&x.s);
                p.push(3);
                DnaString::from_bytes(&p)
            }).collect();
            let seqs: Vec<(debruijn::dna_string::DnaStringSlice, Exts, u32)> =
                reads.iter().zip(owned.iter()).map(|(x, o)| (o.slice(2, 2 + x.s.len()), exts_from(&x.l, &x.r), x.label)).collect();
            run_filter::<K, _>(&seqs, stranded, min, report_all, mode, slices, probes)
        }
        "rcslice" => {
            // every read is a reverse-complemented view starting inside its backing string
            let owned: Vec<DnaString> = reads.iter().map(|x| {
                let mut p = vec![1u8, 0, 3];
                p.extend(rc_bytes(&x.s));
                p.extend_from_slice(&[2, 2]);
                DnaString::from_bytes(&p)
            }).collect();
            let seqs: Vec<(debruijn::dna_string::DnaStringSlice, Exts, u32)> =
                reads.iter().zip(owned.iter()).map(|(x, o)| (o.slice(3, 3 + x.s.len()).rc(), exts_from(&x.l, &x.r), x.label)).collect();
            run_filter::<K, _>(&seqs, stranded, min, report_all, mode, slices, probes)
        }
        _ => {
            let seqs: Vec<(DnaBytes, Exts, u32)> = reads.iter().map(|x| (DnaBytes(x.s.clone()), exts_from(&x.l, &x.r), x.label)).collect();
            run_filter::<K, _>(&seqs, stranded, min, report_all, mode, slices, probes)
        }
    }
}

pub const FILTER_KS: [usize; 9] = [4, 5, 6, 8, 16, 20, 31, 32, 64];

fn filter_case(sink: &Sink, r: &mut Rng, pass_counts: &[usize], saturate: bool) {
    let k = if r.chance(2, 3) { *r.pick(&[4usize, 5, 6, 8]) } else { *r.pick(&FILTER_KS) };
    let stranded = r.chance(1, 2);
    // thresholds around the 16-bit count limit and far beyond it are legal too ("for all n")
    let min = if r.chance(1, 10) || (saturate && r.chance(1, 2)) { *r.pick(&[65535usize, 65536, 65537, 65538, 131073, 1 << 20, usize::MAX]) } else { r.range(0, 4) };
    let report_all = r.chance(1, 2);
    let mode = if saturate { 0 } else { r.below(3) };
    let alphas: [&[u8]; 4] = [&[0, 3], &[1, 2], &[0, 1, 2, 3], &[0, 1, 2, 3]];
    let alpha = *r.pick(&alphas);
    let nreads = r.range(0, 5);
    let core = r.dna_range(k, k + 12, alpha);
    let mut reads: Vec<FRead> = Vec::new();
    for i in 0..nreads {
        let mut s = match r.below(5) {
            0 => core.clone(),
            1 => rc_bytes(&core),
            2 => r.dna_range(0, k - 1, alpha), // shorter than K: no observation
            _ => r.dna_range(k, k + 30, alpha),
        };
        if k > 64 - 30 {
            s.truncate(92);
        }
        let rl: Vec<u8> = (0..4u8).filter(|_| r.chance(1, 3)).collect();
        let rr: Vec<u8> = (0..4u8).filter(|_| r.chance(1, 3)).collect();
        reads.push(FRead { s, l: rl, r: rr, label: if r.chance(1, 3) { 7 } else { i as u32 } });
    }
    if saturate {
        // one k-mer observed more than 65535 times: the count payload must saturate, not wrap, and the extensions
        // must still be the union over ALL observations - the base that follows the run is seen only by the last one
        let mut s: Vec<u8> = vec![2];
        s.extend(vec![0u8; k + 65_540 - 1]);
        s.push(1);
        reads.push(FRead { s, l: vec![], r: vec![], label: 99 });
    }
    let maxlen = reads.iter().map(|x| x.s.len()).max().unwrap_or(0);
    let mut vts = vec!["DnaBytes", "DnaString", "DnaSlice", "slice", "rcslice"];
    if maxlen <= 92 {
        vts.push("Lmer3");
    }
    let vt = *r.pick(&vts);
    // probes: every k-mer of the reads and its rc, plus random ones
    let mut probes: Vec<Vec<u8>> = Vec::new();
    for x in &reads {
        if x.s.len() >= k && x.s.len() < 200 {
            for i in 0..=(x.s.len() - k) {
                if r.chance(1, 3) {
                    probes.push(x.s[i..i + k].to_vec());
                    probes.push(rc_bytes(&x.s[i..i + k]));
                }
            }
        }
    }
    for _ in 0..4 {
        probes.push(r.dna(k, &[0, 1, 2, 3]));
    }
    probes.truncate(40);
    for want in pass_counts {
        let slices = match slices_for_passes(*want) {
            Some(s) => s,
            None => continue,
        };
        let reads_json: Vec<Value> = reads.iter().map(|x| {
            json!({"s": x.s, "l": x.l, "r": x.r, "label": x.label})}).collect();
        let desc = json!({"op":"filter","K":k,"st":stranded,"min":std::cmp::min(min, 1_000_000_000),"report_all":report_all,"mode":mode,"vt":vt,
            "want_passes":want,"slices":slices,"reads":reads_json,"saturate":saturate});
        let case = sink.begin_case(&desc);
        let res = guard(|| with_kmer_filter(k, &reads, vt, stranded, min, report_all, mode, slices, &probes));
        sink.end_case();
        let mut e = desc;
        e["case"] = json!(case);
        match res {
            Ok(o) => {
                for f in ["table", "all", "gets", "passes", "len"] {
                    e[f] = o[f].clone();
                }
                e["panic"] = json!("");
            }
            Err(m) => {
                for f in ["table", "all", "gets", "passes"] {
                    e[f] = json!([]);
                }
                e["len"] = json!(0);
                e["panic"] = json!(m);
            }
        }
        sink.emit(e);
    }
}

fn with_kmer_filter(k: usize, reads: &[FRead], vt: &str, stranded: bool, min: usize, report_all: bool, mode: usize, slices: usize, probes: &[Vec<u8>]) -> Value {
    use debruijn::kmer::*;
    match k {
        4 => filter_dyn::<Kmer4>(reads, vt, stranded, min, report_all, mode, slices, probes),
        5 => filter_dyn::<Kmer5>(reads, vt, stranded, min, report_all, mode, slices, probes),
        6 => filter_dyn::<Kmer6>(reads, vt, stranded, min, report_all, mode, slices, probes),
        8 => filter_dyn::<Kmer8>(reads, vt, stranded, min, report_all, mode, slices, probes),
        16 => filter_dyn::<Kmer16>(reads, vt, stranded, min, report_all, mode, slices, probes),
        20 => filter_dyn::<Kmer20>(reads, vt, stranded, min, report_all, mode, slices, probes),
        31 => filter_dyn::<VarIntKmer<u64, K31>>(reads, vt, stranded, min, report_all, mode, slices, probes),
        32 => filter_dyn::<Kmer32>(reads, vt, stranded, min, report_all, mode, slices, probes),
        _ => filter_dyn::<Kmer64>(reads, vt, stranded, min, report_all, mode, slices, probes),
    }
}

pub const ALL_PASS_COUNTS: [usize; 31] = [1, 2, 3, 4, 5, 6, 7, 8, 9, 10, 11, 12, 13, 14, 15, 16, 18, 19, 20, 22, 24, 26, 29, 32, 37, 43, 52, 64, 86, 128, 256];

// ------------------------------------------------------------------------------------------ driver

macro_rules! p_types {
    ($sel:expr, $f:ident ( $($args:expr),* )) => {{
        use debruijn::kmer::*;
        match $sel {
            0 => $f::<Kmer2>($($args),*),
            1 => $f::<Kmer3>($($args),*),
            2 => $f::<Kmer4>($($args),*),
            3 => $f::<Kmer5>($($args),*),
            4 => $f::<Kmer6>($($args),*),
            5 => $f::<Kmer8>($($args),*),
            // wide p-mers (scan only): a p-mer may span two or three storage words of the read
            6 => $f::<Kmer20>($($args),*),
            7 => $f::<Kmer32>($($args),*),
            8 => $f::<Kmer40>($($args),*),
            9 => $f::<Kmer48>($($args),*),
            10 => $f::<Kmer64>($($args),*),
            // a p-mer type whose 4^p values no longer fit 16 bits (msp only: the permutation table has 2^20 entries)
            11 => $f::<Kmer10>($($args),*),
            _ => $f::<Kmer8>($($args),*),
        }
    }};
}

pub fn record(sink: &Sink, args: &Args) {
    let seed = args.num("seed", 1);
    let mut r = Rng::new(seed);
    let thorough = args.thorough();
    let n = args.num("n", 100) as usize;
    let ev = args.list("events");
    let has = |s: &str| ev.is_empty() || ev.iter().any(|x| x == s);
    if has("scan") {
        for _ in 0..n {
            let sel = if r.chance(1, 5) { r.range(6, 10) } else { r.below(6) };
            p_types!(sel, scan_event(sink, &mut r));
        }
    }
    if has("msp") {
        for _ in 0..n {
            let sel = if r.chance(1, 8) { 11 } else { r.below(5) };
            p_types!(sel, msp_event(sink, &mut r));
        }
    }
    if has("filter") {
        let quick_counts = [1usize, 2, 3, 5, 16, 37, 128, 256];
        for i in 0..n {
            if thorough {
                filter_case(sink, &mut r, &ALL_PASS_COUNTS, false);
            } else {
                // every input at 1 pass and three others; the whole quick set is covered every 2 inputs
                let mut pc = vec![1usize];
                for j in 0..4 {
                    pc.push(quick_counts[1 + (i * 4 + j) % 7]);
                }
                pc.dedup();
                filter_case(sink, &mut r, &pc, false);
            }
        }
        // saturating counts: one input with a k-mer observed 65 540 times (one pass count in the quick tier)
        if thorough {
            filter_case(sink, &mut r, &[1, 3, 256], true);
        } else {
            filter_case(sink, &mut r, &[2], true);
        }
    }
}

#[allow(dead_code)]
fn unused<M: Mer>(_: &M) {}
