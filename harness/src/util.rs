//! Shared helpers: PRNG, event sink, panic capture, watchdog, projections.
use debruijn::{Dir, Exts, Kmer, Mer};
use serde_json::{json, Value};
use std::cell::RefCell;
use std::fs::File;
use std::io::{BufWriter, Seek, SeekFrom, Write};
use std::sync::atomic::{AtomicU64, Ordering};
use std::sync::{Arc, Mutex};
use std::time::{SystemTime, UNIX_EPOCH};

/// xorshift64* PRNG (self-contained, seedable, stable across toolchains)
#[derive(Clone)]
pub struct Rng(pub u64);
impl Rng {
    pub fn new(seed: u64) -> Rng {
        let mut r = Rng(seed.wrapping_mul(0x9E3779B97F4A7C15) ^ 0xD1B54A32D192ED03);
        if r.0 == 0 {
            r.0 = 0x1234_5678_9ABC_DEF1;
        }
        for _ in 0..4 {
            r.next();
        }
        r
    }
    pub fn next(&mut self) -> u64 {
        let mut x = self.0;
        x ^= x >> 12;
        x ^= x << 25;
        x ^= x >> 27;
        self.0 = x;
        x.wrapping_mul(0x2545F4914F6CDD1D)
    }
    /// uniform in 0..n (n > 0)
    pub fn below(&mut self, n: usize) -> usize {
        (self.next() % (n as u64)) as usize
    }
    pub fn range(&mut self, lo: usize, hi_incl: usize) -> usize {
        lo + self.below(hi_incl - lo + 1)
    }
    pub fn chance(&mut self, num: usize, den: usize) -> bool {
        self.below(den) < num
    }
    pub fn pick<'a, T>(&mut self, v: &'a [T]) -> &'a T {
        &v[self.below(v.len())]
    }
    pub fn base(&mut self) -> u8 {
        (self.next() & 3) as u8
    }
    pub fn dna(&mut self, len: usize, alphabet: &[u8]) -> Vec<u8> {
        (0..len).map(|_| *self.pick(alphabet)).collect()
    }
    pub fn dna_range(&mut self, lo: usize, hi: usize, alphabet: &[u8]) -> Vec<u8> {
        let n = self.range(lo, hi);
        self.dna(n, alphabet)
    }
    pub fn shuffle<T>(&mut self, v: &mut [T]) {
        for i in (1..v.len()).rev() {
            let j = self.below(i + 1);
            v.swap(i, j);
        }
    }
}

pub fn rc_bytes(s: &[u8]) -> Vec<u8> {
    s.iter().rev().map(|b| 3 - b).collect()
}

thread_local! {
    static LAST_PANIC: RefCell<String> = RefCell::new(String::new());
}

pub fn install_panic_hook() {
    std::panic::set_hook(Box::new(|info| {
        let msg = if let Some(s) = info.payload().downcast_ref::<&str>() {
            s.to_string()
        } else if let Some(s) = info.payload().downcast_ref::<String>() {
            s.clone()
        } else {
            "panic".to_string()
        };
        let loc = info
            .location()
            .map(|l| format!("{}:{}", l.file(), l.line()))
            .unwrap_or_default();
        LAST_PANIC.with(|p| *p.borrow_mut() = format!("{} @ {}", msg, loc));
    }));
}

/// Run `f`, turning a panic into Err(message). A panic in the code under test is data.
pub fn guard<T>(f: impl FnOnce() -> T) -> Result<T, String> {
    match std::panic::catch_unwind(std::panic::AssertUnwindSafe(f)) {
        Ok(v) => Ok(v),
        Err(_) => Err(LAST_PANIC.with(|p| {
            let s = p.borrow().clone();
            if s.is_empty() {
                "panic (other thread)".to_string()
            } else {
                s
            }
        })),
    }
}

fn now_ms() -> u64 {
    SystemTime::now()
        .duration_since(UNIX_EPOCH)
        .map(|d| d.as_millis() as u64)
        .unwrap_or(0)
}

/// Event sink: NDJSON file + a side file holding the case that is currently running
/// (so a crash / hang leaves a replayable description behind) + a watchdog.
pub struct Sink {
    out: Mutex<BufWriter<File>>,
    cur: Mutex<File>,
    pub n_events: AtomicU64,
    started: Arc<AtomicU64>,
    pub case: AtomicU64,
    stdout: bool,
}

impl Sink {
    pub fn new(path: &str, case_cap_s: u64) -> Arc<Sink> {
        let out = File::create(path).expect("cannot create output file");
        let cur = File::create(format!("{}.current", path)).expect("cannot create side file");
        let started = Arc::new(AtomicU64::new(0));
        let s = Arc::new(Sink {
            out: Mutex::new(BufWriter::new(out)),
            cur: Mutex::new(cur),
            n_events: AtomicU64::new(0),
            started: started.clone(),
            case: AtomicU64::new(0),
            stdout: false,
        });
        let w = s.clone();
        std::thread::spawn(move || loop {
            std::thread::sleep(std::time::Duration::from_millis(500));
            let st = w.started.load(Ordering::SeqCst);
            if st != 0 && now_ms().saturating_sub(st) > case_cap_s * 1000 {
                // the running case exceeded its wall-clock cap: log it and give up
                let desc = {
                    let mut f = w.cur.lock().unwrap();
                    let mut s = String::new();
                    use std::io::Read;
                    let _ = f.seek(SeekFrom::Start(0));
                    let _ = f.read_to_string(&mut s);
                    s
                };
                let v: Value = serde_json::from_str(desc.trim()).unwrap_or(json!({}));
                let mut o = json!({"op":"timeout","case": w.case.load(Ordering::SeqCst), "cap_s": case_cap_s});
                o["running"] = v;
                if let Ok(mut out) = w.out.try_lock() {
                    let _ = writeln!(out, "{}", o);
                    let _ = out.flush();
                }
                std::process::exit(3);
            }
        });
        let _ = s.stdout;
        s
    }

    /// Announce the case that is about to run (inputs only).
    pub fn begin_case(&self, desc: &Value) -> u64 {
        let c = self.case.fetch_add(1, Ordering::SeqCst) + 1;
        {
            let mut f = self.cur.lock().unwrap();
            let _ = f.set_len(0);
            let _ = f.seek(SeekFrom::Start(0));
            let _ = writeln!(f, "{}", desc);
        }
        self.started.store(now_ms(), Ordering::SeqCst);
        c
    }

    /// a fresh case number for an event that is not announced through begin_case
    pub fn next_case(&self) -> u64 {
        self.case.fetch_add(1, Ordering::SeqCst) + 1
    }

    pub fn end_case(&self) {
        self.started.store(0, Ordering::SeqCst);
    }

    pub fn emit(&self, ev: Value) {
        let mut out = self.out.lock().unwrap();
        writeln!(out, "{}", ev).expect("write failed");
        self.n_events.fetch_add(1, Ordering::SeqCst);
    }

    pub fn flush(&self) {
        let _ = self.out.lock().unwrap().flush();
    }
}

pub fn mer_bases<M: Mer>(m: &M) -> Vec<u8> {
    (0..m.len()).map(|i| m.get(i)).collect()
}

pub fn kmer_from<K: Kmer>(b: &[u8]) -> K {
    K::from_bytes(b)
}

pub fn exts_l(e: Exts) -> Vec<u8> {
    e.get(Dir::Left)
}
pub fn exts_r(e: Exts) -> Vec<u8> {
    e.get(Dir::Right)
}

pub fn exts_from(l: &[u8], r: &[u8]) -> Exts {
    let mut e = Exts::empty();
    for b in l {
        e = e.set(Dir::Left, *b);
    }
    for b in r {
        e = e.set(Dir::Right, *b);
    }
    e
}

pub fn dir_str(d: Dir) -> &'static str {
    match d {
        Dir::Left => "L",
        Dir::Right => "R",
    }
}

pub fn dir_of(s: &str) -> Dir {
    if s == "L" {
        Dir::Left
    } else {
        Dir::Right
    }
}

pub fn jbytes(v: &Value) -> Vec<u8> {
    v.as_array()
        .map(|a| a.iter().map(|x| x.as_u64().unwrap_or(0) as u8).collect())
        .unwrap_or_default()
}

/// FNV-1a digest of arbitrary bytes, as a decimal string (TLC integers are 32 bit: keep hashes as strings)
pub fn fnv(data: &[u8]) -> String {
    let mut h: u64 = 0xcbf29ce484222325;
    for b in data {
        h ^= *b as u64;
        h = h.wrapping_mul(0x100000001b3);
    }
    format!("{:016x}", h)
}

/// Dispatch on a run-time K to the shipped k-mer types usable for graph work (K >= 4).
#[macro_export]
macro_rules! with_kmer {
    ($k:expr, $f:ident ( $($args:expr),* )) => {{
        use debruijn::kmer::*;
        match $k {
            2 => $f::<Kmer2>($($args),*),
            3 => $f::<Kmer3>($($args),*),
            4 => $f::<Kmer4>($($args),*),
            5 => $f::<Kmer5>($($args),*),
            6 => $f::<Kmer6>($($args),*),
            8 => $f::<Kmer8>($($args),*),
            10 => $f::<Kmer10>($($args),*),
            12 => $f::<Kmer12>($($args),*),
            14 => $f::<Kmer14>($($args),*),
            15 => $f::<Kmer15>($($args),*),
            16 => $f::<Kmer16>($($args),*),
            20 => $f::<Kmer20>($($args),*),
            24 => $f::<Kmer24>($($args),*),
            30 => $f::<Kmer30>($($args),*),
            31 => $f::<VarIntKmer<u64, K31>>($($args),*),
            32 => $f::<Kmer32>($($args),*),
            40 => $f::<Kmer40>($($args),*),
            48 => $f::<Kmer48>($($args),*),
            64 => $f::<Kmer64>($($args),*),
            other => panic!("unsupported K {}", other),
        }
    }};
}

/// the same for functions with one more (inferred) type parameter
#[macro_export]
macro_rules! with_kmer_v {
    ($k:expr, $f:ident ( $($args:expr),* )) => {{
        use debruijn::kmer::*;
        match $k {
            2 => $f::<Kmer2, _>($($args),*),
            3 => $f::<Kmer3, _>($($args),*),
            4 => $f::<Kmer4, _>($($args),*),
            5 => $f::<Kmer5, _>($($args),*),
            6 => $f::<Kmer6, _>($($args),*),
            8 => $f::<Kmer8, _>($($args),*),
            10 => $f::<Kmer10, _>($($args),*),
            12 => $f::<Kmer12, _>($($args),*),
            14 => $f::<Kmer14, _>($($args),*),
            15 => $f::<Kmer15, _>($($args),*),
            16 => $f::<Kmer16, _>($($args),*),
            20 => $f::<Kmer20, _>($($args),*),
            24 => $f::<Kmer24, _>($($args),*),
            30 => $f::<Kmer30, _>($($args),*),
            31 => $f::<VarIntKmer<u64, K31>, _>($($args),*),
            32 => $f::<Kmer32, _>($($args),*),
            40 => $f::<Kmer40, _>($($args),*),
            48 => $f::<Kmer48, _>($($args),*),
            64 => $f::<Kmer64, _>($($args),*),
            other => panic!("unsupported K {}", other),
        }
    }};
}

pub const ALL_K: [usize; 19] = [2, 3, 4, 5, 6, 8, 10, 12, 14, 15, 16, 20, 24, 30, 31, 32, 40, 48, 64];
