//! Data-type domains: k-mers (C10 C11), reverse complement coherence (C12), k-mer extraction (C13),
//! growable strings (C14), slices (C15), ASCII ingestion (C16), fixed-size strings (C17).
//! Histories are sequences of events between `begin` markers; every event logs the projected state.
use crate::util::*;
use crate::with_kmer;
use crate::with_kmer_v;
use crate::Args;
use debruijn::dna_string::{ndiffs, DnaString, DnaStringSlice, PackedDnaStringSet};
use debruijn::vmer::{Lmer, Lmer1, Lmer2, Lmer3};
use debruijn::{Dir, DnaBytes, DnaSlice, Exts, Kmer, Mer, MerImmut, Vmer};
use serde_json::{json, Value};
use std::collections::hash_map::DefaultHasher;
use std::hash::{Hash, Hasher};
use std::io::BufRead;

fn hash_of<T: Hash>(t: &T) -> u64 {
    let mut h = DefaultHasher::new();
    t.hash(&mut h);
    h.finish()
}

fn cmp_str(o: std::cmp::Ordering) -> &'static str {
    match o {
        std::cmp::Ordering::Less => "lt",
        std::cmp::Ordering::Equal => "eq",
        std::cmp::Ordering::Greater => "gt",
    }
}

pub fn pack_run(run: &[u8], junk: u64) -> u64 {
    // bases packed into the upper-most bits of the value, junk in the unused low bits
    let n = run.len();
    let mut v: u64 = 0;
    for (i, b) in run.iter().enumerate() {
        v |= (*b as u64) << (62 - 2 * i);
    }
    if n == 0 {
        v = junk;
    } else if n < 32 {
        v |= junk & ((1u64 << (64 - 2 * n)) - 1);
    }
    v
}

fn digits_of(mut v: u64, k: usize) -> Vec<u8> {
    let mut d = vec![0u8; k];
    for i in (0..k).rev() {
        d[i] = (v & 3) as u8;
        v >>= 2;
    }
    d
}
fn rank_of(d: &[u8]) -> u64 {
    d.iter().fold(0u64, |a, b| (a << 2) | (*b as u64))
}

// ------------------------------------------------------------------------------------------ k-mers

#[derive(Clone, Debug)]
pub enum KOp {
    FromBytes(Vec<u8>),
    FromAscii(Vec<u8>),
    FromRank(Vec<u8>),
    Empty,
    Copy,
    Set(usize, u8),
    SetImm(usize, u8),
    SetSlice(usize, Vec<u8>, u64),
    SetSliceImm(usize, Vec<u8>, u64),
    ExtL(u8),
    ExtR(u8),
    ExtDir(u8, bool),
    Rc,
    MinRc,
    MinRcFlip,
    KmersFromBytes(Vec<u8>, usize),
    KmersFromAscii(Vec<u8>, usize),
    GetExtension(Vec<u8>, Vec<u8>, bool, usize),
}

fn kop_json(op: &KOp) -> (String, Value) {
    match op {
        KOp::FromBytes(b) => ("from_bytes".into(), json!([b])),
        KOp::FromAscii(b) => ("from_ascii".into(), json!([b])),
        KOp::FromRank(d) => ("from_rank".into(), json!([d])),
        KOp::Empty => ("empty".into(), json!([])),
        KOp::Copy => ("copy".into(), json!([])),
        KOp::Set(p, v) => ("set".into(), json!([p, v])),
        KOp::SetImm(p, v) => ("set".into(), json!([p, v, "imm"])),
        KOp::SetSlice(p, run, _) => ("set_slice".into(), json!([p, run])),
        KOp::SetSliceImm(p, run, _) => ("set_slice".into(), json!([p, run, "imm"])),
        KOp::ExtL(v) => ("extend_left".into(), json!([v])),
        KOp::ExtR(v) => ("extend_right".into(), json!([v])),
        KOp::ExtDir(v, left) => (if *left { "extend_left".into() } else { "extend_right".into() }, json!([v, "dir"])),
        KOp::Rc => ("rc".into(), json!([])),
        KOp::MinRc => ("min_rc".into(), json!([])),
        KOp::MinRcFlip => ("min_rc".into(), json!(["flip"])),
        KOp::KmersFromBytes(s, i) => ("window".into(), json!([s, i, "bytes"])),
        KOp::KmersFromAscii(s, i) => ("window_ascii".into(), json!([s, i])),
        KOp::GetExtension(l, r, left, i) => ("get_extension".into(), json!([l, r, if *left { "L" } else { "R" }, i])),
    }
}

fn kop_apply<K: Kmer>(op: &KOp, src: K) -> K {
    match op {
        KOp::FromBytes(b) => K::from_bytes(b),
        KOp::FromAscii(b) => K::from_ascii(b),
        KOp::FromRank(d) => K::from_u64(rank_of(d)),
        KOp::Empty => K::empty(),
        KOp::Copy => src,
        KOp::Set(p, v) => {
            let mut x = src;
            x.set_mut(*p, *v);
            x
        }
        KOp::SetImm(p, v) => src.set(*p, *v),
        KOp::SetSlice(p, run, junk) => {
            let mut x = src;
            x.set_slice_mut(*p, run.len(), pack_run(run, *junk));
            x
        }
        KOp::SetSliceImm(p, run, junk) => src.set_slice(*p, run.len(), pack_run(run, *junk)),
        KOp::ExtL(v) => src.extend_left(*v),
        KOp::ExtR(v) => src.extend_right(*v),
        KOp::ExtDir(v, left) => src.extend(*v, if *left { Dir::Left } else { Dir::Right }),
        KOp::Rc => src.rc(),
        KOp::MinRc => src.min_rc(),
        KOp::MinRcFlip => src.min_rc_flip().0,
        KOp::KmersFromBytes(s, i) => K::kmers_from_bytes(s)[*i],
        KOp::KmersFromAscii(s, i) => K::kmers_from_ascii(s)[*i],
        KOp::GetExtension(l, r, left, i) => {
            src.get_extensions(exts_from(l, r), if *left { Dir::Left } else { Dir::Right })[*i]
        }
    }
}

fn kmer_obs<K: Kmer>(x: &K, regs: &[K]) -> Value {
    let k = K::k();
    let rank: Value = if k <= 32 { json!(digits_of(x.to_u64(), k)) } else { json!([]) };
    let (mk, flip) = x.min_rc_flip();
    json!({
        "val": mer_bases(x), "len": x.len(), "empty": x.is_empty(), "rank": rank,
        "at": x.at_count(), "gc": x.gc_count(), "text": x.to_string(), "dbg": format!("{:?}", x),
        "pal": x.is_palindrome(), "flip": flip, "canon": mer_bases(&mk),
        "iter": x.iter().collect::<Vec<u8>>(),
        "rel": regs.iter().map(|y| json!({"eq": x == y, "ne": x != y, "ord": cmp_str(x.cmp(y)),
            "pord": x.partial_cmp(y).map(cmp_str).unwrap_or("none"), "lt": x < y,
            "heq": hash_of(x) == hash_of(y), "ham": x.hamming_dist(*y)})).collect::<Vec<_>>(),
    })
}

fn gen_kop(r: &mut Rng, k: usize, has_rank: bool) -> KOp {
    let alpha: [&[u8]; 3] = [&[0, 1, 2, 3], &[0, 3], &[3]];
    match r.below(18) {
        0 => KOp::FromBytes(r.dna_range(k, k + 3, *r.clone().pick(&alpha))),
        1 => {
            let n = r.range(k, k + 2);
            KOp::FromAscii((0..n).map(|_| *r.pick(b"ACGTacgtNn-")).collect())
        }
        2 => {
            let _ = has_rank;
            // K > 32: "the leading bases will be A's" - the 64-bit rank fills the last 32 bases
            KOp::FromRank(r.dna(std::cmp::min(k, 32), &[0, 1, 2, 3]))
        }
        3 => KOp::Copy,
        4 => KOp::Set(r.below(k), r.base()),
        5 => KOp::SetImm(r.below(k), r.base()),
        6 | 7 => {
            // full-word runs (32 bases) and runs starting at 0 / at the word boundary are frequent
            let pos = if r.chance(1, 3) { *r.pick(&[0usize, k.saturating_sub(32), 32 % k, k / 2]) } else { r.below(k) };
            let maxn = std::cmp::min(32, k - pos);
            let n = if r.chance(1, 3) { maxn } else { r.range(1, maxn) };
            let run = r.dna(n, &[0, 1, 2, 3]);
            let junk = if r.chance(1, 3) { 0 } else { r.next() };
            if r.chance(1, 3) {
                KOp::SetSliceImm(pos, run, junk)
            } else {
                KOp::SetSlice(pos, run, junk)
            }
        }
        8 => KOp::ExtL(r.base()),
        9 | 10 => KOp::ExtR(r.base()),
        11 => KOp::ExtDir(r.base(), r.chance(1, 2)),
        12 | 13 => KOp::Rc,
        14 => KOp::MinRc,
        15 => KOp::MinRcFlip,
        16 => {
            let s = r.dna_range(k, k + 6, &[0, 1, 2, 3]);
            let i = r.below(s.len() - k + 1);
            if r.chance(1, 2) {
                KOp::KmersFromBytes(s, i)
            } else {
                KOp::KmersFromAscii(s.iter().map(|b| b"ACGT"[*b as usize]).collect(), i)
            }
        }
        _ => {
            let l: Vec<u8> = (0..4u8).filter(|_| r.chance(1, 2)).collect();
            let rr: Vec<u8> = (0..4u8).filter(|_| r.chance(1, 2)).collect();
            let left = r.chance(1, 2);
            let n = if left { l.len() } else { rr.len() };
            if n == 0 {
                KOp::Rc
            } else {
                KOp::GetExtension(l, rr, left, r.below(n))
            }
        }
    }
}

fn emit_kop<K: Kmer>(sink: &Sink, ty: &str, regs: &mut Vec<K>, dst: usize, src: usize, op: &KOp) -> bool {
    let (name, args) = kop_json(op);
    let desc = json!({"op":"kop","ty":ty,"K":K::k(),"name":name,"dst":dst,"src":src,"args":args});
    let case = sink.begin_case(&desc);
    let s = regs[src];
    let res = guard(|| {
        let v = kop_apply::<K>(op, s);
        let mut regs2 = regs.clone();
        regs2[dst] = v;
        (v, kmer_obs(&v, &regs2))
    });
    sink.end_case();
    let mut e = desc;
    e["case"] = json!(case);
    match res {
        Ok((v, obs)) => {
            regs[dst] = v;
            e["obs"] = obs;
            e["panic"] = json!("");
            sink.emit(e);
            true
        }
        Err(m) => {
            e["obs"] = json!({});
            e["panic"] = json!(m);
            sink.emit(e);
            false
        }
    }
}

/// Random register-machine history on one k-mer type; the same string is reached by different routes on purpose.
/// The width a shipped k-mer type is NAMED for (not what it reports): `KmerN` = IntKmer over a storage word of 2N bits,
/// or VarIntKmer with the size marker `KN`.
pub fn nominal_k<K: Kmer>() -> usize {
    let ty = std::any::type_name::<K>();
    if let Some(i) = ty.rfind("::K") {
        let digits: String = ty[i + 3..].chars().take_while(|c| c.is_ascii_digit()).collect();
        if let Ok(n) = digits.parse::<usize>() {
            return n;
        }
    }
    if ty.contains("IntKmer<u8>") { 4 } else if ty.contains("IntKmer<u16>") { 8 } else if ty.contains("IntKmer<u32>") { 16 }
    else if ty.contains("IntKmer<u64>") { 32 } else if ty.contains("IntKmer<u128>") { 64 } else { K::k() }
}

pub fn kmer_history<K: Kmer + Send + Sync>(sink: &Sink, r: &mut Rng, steps: usize) {
    let k = K::k();
    let ty = std::any::type_name::<K>().replace("debruijn::kmer::", "");
    let nregs = 3;
    sink.emit(json!({"op":"begin","dom":"kmer","ty":ty,"K":k,"Knom":nominal_k::<K>(),"nregs":nregs,"case":0,"panic":""}));
    let mut regs: Vec<K> = vec![K::empty(); nregs];
    for step in 0..steps {
        let dst = r.below(nregs);
        let src = r.below(nregs);
        let op = if step % 9 == 8 {
            // reach the string of another register by a different route
            let target = mer_bases(&regs[r.below(nregs)]);
            match r.below(4) {
                0 => KOp::FromBytes(target),
                1 => KOp::FromAscii(target.iter().map(|b| b"ACGT"[*b as usize]).collect()),
                2 if k <= 32 => KOp::FromRank(target),
                _ => KOp::KmersFromBytes(target, 0),
            }
        } else {
            gen_kop(r, k, k <= 32)
        };
        if !emit_kop::<K>(sink, &ty, &mut regs, dst, src, &op) {
            break;
        }
        if step % 9 == 7 {
            // route 2: K x extend_right from whatever is there
            let target = mer_bases(&regs[r.below(nregs)]);
            let d = r.below(nregs);
            for b in target {
                if !emit_kop::<K>(sink, &ty, &mut regs, d, d, &KOp::ExtR(b)) {
                    return;
                }
            }
        }
    }
    // end of history: sort / dedup / group / binary search / perfect-hash lookup on the pool of values
    let desc = json!({"op":"kpool","ty":ty,"K":k});
    let case = sink.begin_case(&desc);
    let pool0: Vec<K> = regs.clone();
    let res = guard(|| {
        let mut pool: Vec<K> = pool0.clone();
        for x in pool0.iter() {
            pool.push(x.rc());
            pool.push(x.extend_right(0));
        }
        let input: Vec<Vec<u8>> = pool.iter().map(mer_bases).collect();
        let mut sorted = pool.clone();
        sorted.sort();
        let sorted_j: Vec<Vec<u8>> = sorted.iter().map(mer_bases).collect();
        let mut ded = sorted.clone();
        ded.dedup();
        let ded_j: Vec<Vec<u8>> = ded.iter().map(mer_bases).collect();
        let found: Vec<i64> = pool.iter().map(|x| ded.binary_search(x).map(|i| i as i64).unwrap_or(-1)).collect();
        let hs: std::collections::HashSet<K> = pool.iter().cloned().collect();
        let map = boomphf::hashmap::BoomHashMap::new(ded.clone(), (0..ded.len() as u32).collect::<Vec<u32>>());
        let looked: Vec<i64> = pool.iter().map(|x| map.get(x).map(|v| *v as i64).unwrap_or(-1)).collect();
        (input, sorted_j, ded_j, found, hs.len(), looked)
    });
    sink.end_case();
    let mut e = desc;
    e["case"] = json!(case);
    match res {
        Ok((input, sorted, ded, found, nset, looked)) => {
            e["input"] = json!(input);
            e["sorted"] = json!(sorted);
            e["dedup"] = json!(ded);
            e["found"] = json!(found);
            e["nset"] = json!(nset);
            e["looked"] = json!(looked);
            e["panic"] = json!("");
        }
        Err(m) => {
            for f in ["input", "sorted", "dedup", "found", "looked"] {
                e[f] = json!([]);
            }
            e["nset"] = json!(0);
            e["panic"] = json!(m);
        }
    }
    sink.emit(e);
}

/// Exhaustive value x operation coverage on one k-mer type: every value (or the OR-basis and random
/// values for large K) through every op, every position, several run lengths.
pub fn kmer_exhaustive<K: Kmer + Send + Sync>(sink: &Sink, r: &mut Rng, limit: usize, nrand: usize, thorough: bool) {
    let k = K::k();
    let ty = std::any::type_name::<K>().replace("debruijn::kmer::", "");
    let mut values: Vec<Vec<u8>> = Vec::new();
    let total: u128 = if 2 * k >= 127 { u128::MAX } else { 1u128 << (2 * k) };
    let full_ops = thorough && k <= 6;
    if total <= limit as u128 {
        for v in 0..(total as u64) {
            values.push(digits_of(v, k));
        }
    } else {
        // OR-basis: all-A, all-T, each one-hot lane x each base, then random values
        values.push(vec![0; k]);
        values.push(vec![3; k]);
        for i in 0..k {
            for b in 1..4u8 {
                let mut v = vec![0u8; k];
                v[i] = b;
                values.push(v);
                let mut w = vec![3u8; k];
                w[i] = 3 - b;
                values.push(w);
            }
        }
        for _ in 0..nrand {
            values.push(r.dna(k, &[0, 1, 2, 3]));
        }
    }
    for v in values {
        sink.emit(json!({"op":"begin","dom":"kmer","ty":ty,"K":k,"Knom":nominal_k::<K>(),"nregs":2,"case":0,"panic":""}));
        let mut regs: Vec<K> = vec![K::empty(); 2];
        if !emit_kop::<K>(sink, &ty, &mut regs, 0, 0, &KOp::FromBytes(v.clone())) {
            continue;
        }
        let mut ops: Vec<KOp> = vec![KOp::Rc, KOp::MinRc, KOp::Copy];
        if k <= 32 {
            ops.push(KOp::FromRank(v.clone()));
        }
        for b in 0..4u8 {
            ops.push(KOp::ExtL(b));
            ops.push(KOp::ExtR(b));
        }
        let positions: Vec<usize> = if full_ops || k <= 8 { (0..k).collect() } else { vec![0, 1, k / 2, k - 2, k - 1] };
        for p in &positions {
            let b = if full_ops { r.base() } else { (v[*p] + 1 + (r.below(3) as u8)) % 4 };
            ops.push(KOp::Set(*p, b));
            if full_ops {
                for bb in 0..4u8 {
                    ops.push(KOp::Set(*p, bb));
                }
            }
            let maxn = std::cmp::min(32, k - p);
            let ns: Vec<usize> = if full_ops { (1..=maxn).collect() } else { vec![1, maxn, r.range(1, maxn)] };
            for n in ns {
                let run = r.dna(n, &[0, 1, 2, 3]);
                ops.push(KOp::SetSlice(*p, run.clone(), r.next()));
                if full_ops {
                    // marker runs make a misplaced lane visible whatever the content
                    ops.push(KOp::SetSlice(*p, vec![3; n], 0));
                    ops.push(KOp::SetSlice(*p, vec![0; n], u64::MAX));
                }
            }
        }
        for op in ops {
            if !emit_kop::<K>(sink, &ty, &mut regs, 1, 0, &op) {
                break;
            }
        }
    }
}

// ------------------------------------------------------------------------------------------ growable strings (C14)

#[derive(Clone, Debug)]
pub enum SOp {
    New,
    WithCapacity(usize),
    Blank(usize),
    FromBytes(Vec<u8>),
    FromDnaString(Vec<u8>),
    FromAcgtBytes(Vec<u8>),
    Push(u8),
    Extend(Vec<u8>),
    PushBytes(Vec<u8>, usize),
    Set(usize, u8),
    SetImm(usize, u8),
    Clear,
    Copy,
    Rc,
    Reverse,
    VmerNew(usize),
    FromSlice(Vec<u8>),
    SliceOwned(usize, usize),
    Default,
}

fn sop_json(op: &SOp) -> (String, Value) {
    match op {
        SOp::New => ("new".into(), json!([])),
        SOp::Default => ("new".into(), json!(["default"])),
        SOp::WithCapacity(n) => ("new".into(), json!(["cap", n])),
        SOp::Blank(n) => ("blank".into(), json!([n])),
        SOp::VmerNew(n) => ("blank".into(), json!([n, "vmer"])),
        SOp::FromBytes(b) => ("from_bytes".into(), json!([b])),
        SOp::FromSlice(b) => ("from_bytes".into(), json!([b, "from_slice"])),
        SOp::FromDnaString(b) => ("from_ascii".into(), json!([b, "str"])),
        SOp::FromAcgtBytes(b) => ("from_ascii".into(), json!([b, "acgt"])),
        SOp::Push(v) => ("push".into(), json!([v])),
        SOp::Extend(v) => ("extend".into(), json!([v])),
        SOp::PushBytes(b, n) => ("push_bytes".into(), json!([b, n])),
        SOp::Set(i, v) => ("set".into(), json!([i, v])),
        SOp::SetImm(i, v) => ("set".into(), json!([i, v, "imm"])),
        SOp::Clear => ("clear".into(), json!([])),
        SOp::Copy => ("copy".into(), json!([])),
        SOp::Rc => ("rc".into(), json!([])),
        SOp::Reverse => ("reverse".into(), json!([])),
        SOp::SliceOwned(a, b) => ("sub".into(), json!([a, b])),
    }
}

fn sop_apply(op: &SOp, src: &DnaString) -> DnaString {
    match op {
        SOp::New => DnaString::new(),
        SOp::Default => DnaString::default(),
        SOp::WithCapacity(n) => DnaString::with_capacity(*n),
        SOp::Blank(n) => DnaString::blank(*n),
        SOp::VmerNew(n) => <DnaString as Vmer>::new(*n),
        SOp::FromBytes(b) => DnaString::from_bytes(b),
        SOp::FromSlice(b) => <DnaString as Vmer>::from_slice(b),
        SOp::FromDnaString(b) => DnaString::from_dna_string(std::str::from_utf8(b).unwrap()),
        SOp::FromAcgtBytes(b) => DnaString::from_acgt_bytes(b),
        SOp::Push(v) => {
            let mut x = src.clone();
            x.push(*v);
            x
        }
        SOp::Extend(v) => {
            let mut x = src.clone();
            x.extend(v.iter().cloned());
            x
        }
        SOp::PushBytes(b, n) => {
            let mut x = src.clone();
            x.push_bytes(b, *n);
            x
        }
        SOp::Set(i, v) => {
            let mut x = src.clone();
            x.set_mut(*i, *v);
            x
        }
        SOp::SetImm(i, v) => MerImmut::set(src, *i, *v),
        SOp::Clear => {
            let mut x = src.clone();
            x.clear();
            x
        }
        SOp::Copy => src.clone(),
        SOp::Rc => src.rc(),
        SOp::Reverse => src.reverse(),
        SOp::SliceOwned(a, b) => src.slice(*a, *b).to_owned(),
    }
}

fn string_obs(x: &DnaString, regs: &[DnaString]) -> Value {
    let n = x.len();
    json!({
        "len": n, "mlen": Mer::len(x), "empty": x.is_empty(),
        "bytes": (0..n).map(|i| x.get(i)).collect::<Vec<u8>>(),
        "iter": x.iter().collect::<Vec<u8>>(), "into_iter": x.into_iter().collect::<Vec<u8>>(),
        "to_bytes": x.to_bytes(), "ascii": x.to_ascii_vec(), "display": format!("{}", x), "dbg": format!("{:?}", x),
        "rel": regs.iter().map(|y| json!({"eq": x == y, "ord": cmp_str(x.cmp(y)), "heq": hash_of(x) == hash_of(y),
            "nd": if x.len() == y.len() { ndiffs(x, y) as i64 } else { -1 },
            "hd": if x.len() == y.len() { x.hamming_distance(y) as i64 } else { -1 }})).collect::<Vec<_>>(),
    })
}

fn gen_sop(r: &mut Rng, cur_len: usize) -> SOp {
    let lens = [0usize, 1, 2, 5, 15, 16, 17, 31, 32, 33, 47, 48, 63, 64, 65, 70, 96];
    let alpha: [&[u8]; 3] = [&[0, 1, 2, 3], &[0, 1, 2, 3], &[3]];
    let a = *r.pick(&alpha);
    match r.below(20) {
        0 => SOp::New,
        1 => SOp::WithCapacity(*r.pick(&lens)),
        2 => SOp::Blank(*r.pick(&lens)),
        3 => SOp::FromBytes(r.dna(*r.clone().pick(&lens), a)),
        4 => {
            let n = *r.pick(&lens);
            SOp::FromDnaString((0..n).map(|_| *r.pick(b"ACGTacgtNRYn-. SWDswd37#$")).collect())
        }
        5 => {
            let n = *r.pick(&lens);
            SOp::FromAcgtBytes((0..n).map(|_| *r.pick(b"ACGTacgtNRYn-. SWDswd37#$")).collect())
        }
        6 | 7 | 8 => SOp::Push(*r.pick(a)),
        9 | 10 | 11 => SOp::Extend(r.dna(*r.clone().pick(&lens), a)),
        12 => {
            let nb = r.range(0, 20);
            let bytes: Vec<u8> = (0..nb).map(|_| (r.next() & 0xff) as u8).collect();
            let n = if nb == 0 { 0 } else { r.range(0, nb * 4) };
            SOp::PushBytes(bytes, n)
        }
        13 | 14 => {
            if cur_len == 0 {
                SOp::Push(r.base())
            } else if r.chance(1, 3) {
                SOp::SetImm(r.below(cur_len), r.base())
            } else {
                SOp::Set(r.below(cur_len), r.base())
            }
        }
        15 => SOp::Clear,
        16 => SOp::Copy,
        17 => SOp::Rc,
        18 => {
            if r.chance(1, 2) {
                SOp::Reverse
            } else if r.chance(1, 2) {
                SOp::VmerNew(*r.pick(&lens))
            } else {
                SOp::FromSlice(r.dna(*r.clone().pick(&lens), a))
            }
        }
        _ => {
            let a0 = r.range(0, cur_len);
            let b0 = r.range(a0, cur_len);
            SOp::SliceOwned(a0, b0)
        }
    }
}

pub fn emit_sop(sink: &Sink, regs: &mut Vec<DnaString>, dst: usize, src: usize, op: &SOp) -> bool {
    let (name, args) = sop_json(op);
    let desc = json!({"op":"sop","name":name,"dst":dst,"src":src,"args":args});
    let case = sink.begin_case(&desc);
    let s = regs[src].clone();
    let res = guard(|| {
        let v = sop_apply(op, &s);
        let mut regs2 = regs.clone();
        regs2[dst] = v.clone();
        let o = string_obs(&v, &regs2);
        (v, o)
    });
    sink.end_case();
    let mut e = desc;
    e["case"] = json!(case);
    match res {
        Ok((v, obs)) => {
            regs[dst] = v;
            e["obs"] = obs;
            e["panic"] = json!("");
            sink.emit(e);
            true
        }
        Err(m) => {
            e["obs"] = json!({});
            e["panic"] = json!(m);
            sink.emit(e);
            false
        }
    }
}

pub fn string_history(sink: &Sink, r: &mut Rng, steps: usize) {
    let nregs = 3;
    sink.emit(json!({"op":"begin","dom":"string","nregs":nregs,"case":0,"panic":""}));
    let mut regs: Vec<DnaString> = vec![DnaString::new(); nregs];
    for step in 0..steps {
        let dst = r.below(nregs);
        let src = if r.chance(2, 3) { dst } else { r.below(nregs) };
        let op = if step % 7 == 6 {
            // rebuild another register's content by a different route, so that ==/cmp/hash see two routes to one string
            let t: Vec<u8> = regs[r.below(nregs)].to_bytes();
            match r.below(4) {
                0 => SOp::FromBytes(t),
                1 => SOp::FromAcgtBytes(t.iter().map(|b| b"ACGT"[*b as usize]).collect()),
                2 => SOp::FromDnaString(t.iter().map(|b| b"acgt"[*b as usize]).collect()),
                _ => {
                    // blank + set one by one
                    if !emit_sop(sink, &mut regs, dst, dst, &SOp::Blank(t.len())) {
                        return;
                    }
                    for (i, b) in t.iter().enumerate() {
                        if *b != 0 || r.chance(1, 8) {
                            if !emit_sop(sink, &mut regs, dst, dst, &SOp::Set(i, *b)) {
                                return;
                            }
                        }
                    }
                    SOp::Copy
                }
            }
        } else {
            gen_sop(r, regs[src].len())
        };
        let src = if matches!(op, SOp::Copy) && step % 7 == 6 { dst } else { src };
        if !emit_sop(sink, &mut regs, dst, src, &op) {
            break;
        }
    }
    // packed set of strings: every added sequence is returned unchanged at its index
    let n = r.range(0, 6);
    let lens = [0usize, 1, 31, 32, 33, 64, 65, 7];
    let seqs: Vec<Vec<u8>> = (0..n).map(|_| r.dna(*r.clone().pick(&lens), &[0, 1, 2, 3])).collect();
    let desc = json!({"op":"pset","seqs":seqs});
    let case = sink.begin_case(&desc);
    let res = guard(|| {
        let mut ps = PackedDnaStringSet::new();
        let mut lens_after = Vec::new();
        for (i, s) in seqs.iter().enumerate() {
            if i % 2 == 0 {
                ps.add(s.iter());
            } else {
                ps.add(s.iter().cloned());
            }
            lens_after.push(ps.len());
        }
        let got: Vec<Vec<u8>> = (0..ps.len()).map(|i| ps.get(i).bytes()).collect();
        let subs: Vec<Value> = seqs.iter().enumerate().filter(|(_, s)| !s.is_empty()).map(|(i, s)| {
            let a = s.len() / 3;
            let b = s.len() - s.len() / 4;
            json!([i, a, b, ps.slice(i, a, b).bytes()])
        }).collect();
        (got, subs, ps.len(), ps.is_empty(), lens_after)
    });
    sink.end_case();
    let mut e = desc;
    e["case"] = json!(case);
    match res {
        Ok((got, subs, n, empty, la)) => {
            e["got"] = json!(got);
            e["subs"] = json!(subs);
            e["n"] = json!(n);
            e["is_empty"] = json!(empty);
            e["lens_after"] = json!(la);
            e["panic"] = json!("");
        }
        Err(m) => {
            e["got"] = json!([]);
            e["subs"] = json!([]);
            e["n"] = json!(0);
            e["is_empty"] = json!(false);
            e["lens_after"] = json!([]);
            e["panic"] = json!(m);
        }
    }
    sink.emit(e);
}

// ------------------------------------------------------------------------------------------ slices (C15)

fn slice_obs(v: &DnaStringSlice) -> Value {
    let n = v.len();
    let mut kmers: Vec<Value> = Vec::new();
    if n >= 5 {
        for i in [0, (n - 5) / 2, n - 5] {
            let km: debruijn::kmer::Kmer5 = v.get_kmer(i);
            kmers.push(json!([i, mer_bases(&km)]));
        }
    }
    if n >= 33 {
        let km: debruijn::kmer::Kmer32 = v.get_kmer(1);
        kmers.push(json!([1, mer_bases(&km)]));
    }
    // the owned copy against the same bases built by another route, and after growing
    let owned = v.to_owned();
    let canon = DnaString::from_bytes(&(0..n).map(|i| v.get(i)).collect::<Vec<u8>>());
    let mut grown = v.to_owned();
    grown.push(2);
    grown.push(1);
    grown.push(3);
    json!({
        "owned_eq": owned == canon, "owned_hash_eq": hash_of(&owned) == hash_of(&canon), "owned_push": grown.to_bytes(),
        "len": n, "empty": v.is_empty(), "get": (0..n).map(|i| v.get(i)).collect::<Vec<u8>>(),
        "bytes": v.bytes(), "ascii": v.ascii(), "text": v.to_dna_string(),
        "display": format!("{}", v), "dbg": format!("{:?}", v), "owned": v.to_owned().to_bytes(),
        "iter": v.iter().collect::<Vec<u8>>(), "into_iter": v.into_iter().collect::<Vec<u8>>(),
        "self_eq": v == &v.clone(), "kmers": kmers,
    })
}

pub fn slice_history(sink: &Sink, r: &mut Rng) {
    let lens = [0usize, 1, 4, 5, 9, 31, 32, 33, 64, 65, 100, 130, 255, 256, 300];
    // one base string in three is periodic (period 1..3): equal windows at different offsets are then the rule
    let period = if r.chance(1, 3) { r.range(1, 3) } else { 0 };
    let mut base = r.dna(*r.clone().pick(&lens), &[0, 1, 2, 3]);
    if period > 0 {
        for i in period..base.len() {
            base[i] = base[i - period];
        }
    }
    let ds = DnaString::from_bytes(&base);
    sink.emit(json!({"op":"begin","dom":"slice","base":base,"case":0,"panic":""}));
    // first view from the string, then nested views; each step is one event
    let mut views: Vec<DnaStringSlice> = Vec::new();
    let depth = r.range(1, 6);
    for step in 0..depth {
        let (args, res): (Value, Result<DnaStringSlice, String>) = if step == 0 {
            let n = base.len();
            match r.below(3) {
                0 => {
                    let k0 = r.range(0, n);
                    let k = if r.chance(1, 3) { (k0 / 32) * 32 } else { k0 };
                    (json!(["prefix", k]), guard(|| ds.prefix(k)))
                }
                1 => {
                    let k = r.range(0, n);
                    (json!(["suffix", k]), guard(|| ds.suffix(k)))
                }
                _ => {
                    // block boundaries (multiples of 32) are frequent on either end
                    let snap = |r: &mut Rng, x: usize| if r.chance(1, 3) { std::cmp::min(n, (x / 32) * 32) } else { x };
                    let a0 = r.range(0, n);
                    let a = snap(r, a0);
                    let b0 = r.range(a, n);
                    let b = std::cmp::max(a, snap(r, b0));
                    (json!(["slice", a, b]), guard(|| ds.slice(a, b)))
                }
            }
        } else {
            let cur = views.last().unwrap().clone();
            if r.chance(1, 2) {
                (json!(["rc"]), guard(|| cur.rc()))
            } else {
                let n = cur.len();
                let a = r.range(0, n);
                let b = r.range(a, n);
                let cur2 = cur.clone();
                let dsref: &DnaString = &ds;
                (json!(["slice", a, b]), guard(move || {
                    let s = cur2.slice(a, b);
                    // re-anchor on the base string (the view's backing store is `ds`; only the borrow is re-expressed)
                    DnaStringSlice { dna_string: dsref, start: s.start, length: s.length, is_rc: s.is_rc }
                }))
            }
        };
        let mut e = json!({"op":"view","args":args,"case":sink.next_case()});
        match res {
            Ok(v) => {
                let v2 = v.clone();
                match guard(move || {
                    let cur = views_eq_prev(&v2);
                    (slice_obs(&v2), cur)
                }) {
                    Ok((o, _)) => {
                        // equality with the previous view (same length only), by the slice's own PartialEq
                        let mut o = o;
                        if let Some(p) = views.last() {
                            o["eq_prev"] = json!(p == &v);
                        } else {
                            o["eq_prev"] = json!(false);
                        }
                        // a sibling view: same backing string, same length and orientation, shifted by one period (or one base):
                        // equality must follow the bases, not the offsets
                        let d = if period > 0 { period } else { 1 };
                        let sib_start = if v.start + d + v.length <= ds.len() { Some(v.start + d) } else if v.start >= d { Some(v.start - d) } else { None };
                        match sib_start {
                            Some(st) => {
                                let w = DnaStringSlice { dna_string: v.dna_string, start: st, length: v.length, is_rc: v.is_rc };
                                match guard(|| ((0..w.len()).map(|i| w.get(i)).collect::<Vec<u8>>(), v == w, w == v)) {
                                    Ok((wb, e1, e2)) => {
                                        o["sib"] = json!(true);
                                        o["sib_bytes"] = json!(wb);
                                        o["sib_eq"] = json!([e1, e2]);
                                    }
                                    Err(_) => {
                                        o["sib"] = json!(true);
                                        o["sib_bytes"] = json!([9]);
                                        o["sib_eq"] = json!([false, false]);
                                    }
                                }
                            }
                            None => {
                                o["sib"] = json!(false);
                                o["sib_bytes"] = json!([]);
                                o["sib_eq"] = json!([false, false]);
                            }
                        }
                        e["obs"] = o;
                        e["panic"] = json!("");
                    }
                    Err(m) => {
                        e["obs"] = json!({});
                        e["panic"] = json!(m);
                    }
                }
                views.push(v);
                let failed = e["panic"] != json!("");
                sink.emit(e);
                if failed {
                    return;
                }
            }
            Err(m) => {
                e["obs"] = json!({});
                e["panic"] = json!(m);
                sink.emit(e);
                return;
            }
        }
    }
}
fn views_eq_prev(_v: &DnaStringSlice) -> bool {
    true
}

/// Hamming distance between equal-length views (forward, rc and mixed), lengths up to >= 1024.
pub fn hamming_event(sink: &Sink, r: &mut Rng) {
    let lens = [0usize, 1, 5, 31, 32, 33, 63, 64, 65, 70, 96, 1023, 1024, 1025, 1056, 1100, 2048, 2100];
    let n = *r.pick(&lens);
    let a = r.dna(n, &[0, 1, 2, 3]);
    let mut b = a.clone();
    // plant differences: position 0, block edges, the end, or a random sprinkle
    if n > 0 {
        match r.below(5) {
            0 => b[0] = 3 - b[0],
            1 => {
                for p in [31usize, 32, 33, 63, 64] {
                    if p < n {
                        b[p] = (b[p] + 1) % 4;
                    }
                }
            }
            2 => b[n - 1] = (b[n - 1] + 2) % 4,
            3 => {
                for i in 0..n {
                    if r.chance(1, 5) {
                        b[i] = r.base();
                    }
                }
            }
            _ => {}
        }
    }
    let pad_a = r.range(0, 40);
    let pad_b = r.range(0, 40);
    let rc_a = r.chance(1, 3);
    let rc_b = r.chance(1, 3);
    // store so that the VIEW (after optional rc) spells a / b
    let mk = |s: &[u8], pad: usize, rcv: bool, r: &mut Rng| {
        let mut full = r.dna(pad, &[0, 1, 2, 3]);
        full.extend(if rcv { rc_bytes(s) } else { s.to_vec() });
        full.extend(r.dna(7, &[0, 1, 2, 3]));
        full
    };
    let fa = mk(&a, pad_a, rc_a, r);
    let fb = mk(&b, pad_b, rc_b, r);
    let desc = json!({"op":"hamming","a":a,"b":b,"rc_a":rc_a,"rc_b":rc_b,"pad_a":pad_a,"pad_b":pad_b,"n":n});
    let case = sink.begin_case(&desc);
    let res = guard(|| {
        let da = DnaString::from_bytes(&fa);
        let db = DnaString::from_bytes(&fb);
        let mut va = da.slice(pad_a, pad_a + n);
        let mut vb = db.slice(pad_b, pad_b + n);
        if rc_a {
            va = va.rc();
        }
        if rc_b {
            vb = vb.rc();
        }
        (va.hamming_dist(&vb), vb.hamming_dist(&va), va.bytes(), vb.bytes(), va == vb)
    });
    sink.end_case();
    let mut e = desc;
    e["case"] = json!(case);
    match res {
        Ok((d1, d2, ba, bb, eq)) => {
            e["dist"] = json!(d1);
            e["dist_rev"] = json!(d2);
            e["seen_a_ok"] = json!(ba == a);
            e["seen_b_ok"] = json!(bb == b);
            e["eq"] = json!(eq);
            e["panic"] = json!("");
        }
        Err(m) => {
            e["dist"] = json!(-1);
            e["dist_rev"] = json!(-1);
            e["seen_a_ok"] = json!(false);
            e["seen_b_ok"] = json!(false);
            e["eq"] = json!(false);
            e["panic"] = json!(m);
        }
    }
    sink.emit(e);
}

// ------------------------------------------------------------------------------------------ Lmer (C17)

fn lmer_obs<A>(x: &Lmer<A>, regs: &[Lmer<A>]) -> Value
where
    A: debruijn::vmer::Array<Item = u64> + Copy + Eq + Ord + Hash,
{
    let n = x.len();
    let mut kmers: Vec<Value> = Vec::new();
    for kk in [3usize, 8, 32] {
        if n >= kk {
            for i in [0, n - kk] {
                let b = with_kmer_v!(kk, lmer_kmer(x, i));
                kmers.push(json!([kk, i, b]));
            }
        }
    }
    json!({
        "len": n, "empty": x.is_empty(), "bytes": (0..n).map(|i| x.get(i)).collect::<Vec<u8>>(),
        "dbg": format!("{:?}", x), "kmers": kmers,
        "iter5": x.iter_kmers::<debruijn::kmer::Kmer5>().map(|k| mer_bases(&k)).collect::<Vec<_>>().len(),
        "rel": regs.iter().map(|y| json!({"eq": x == y, "heq": hash_of(x) == hash_of(y)})).collect::<Vec<_>>(),
    })
}
fn lmer_kmer<K: Kmer, A>(x: &Lmer<A>, i: usize) -> Vec<u8>
where
    A: debruijn::vmer::Array<Item = u64> + Copy + Eq + Ord + Hash,
{
    mer_bases(&x.get_kmer::<K>(i))
}

pub fn lmer_history<A>(sink: &Sink, r: &mut Rng, steps: usize, size: usize)
where
    A: debruijn::vmer::Array<Item = u64> + Copy + Eq + Ord + Hash,
{
    let maxlen = <Lmer<A> as Vmer>::max_len();
    let nregs = 2;
    sink.emit(json!({"op":"begin","dom":"lmer","size":size,"max_len":maxlen,"nregs":nregs,"case":0,"panic":""}));
    let mut regs: Vec<Lmer<A>> = vec![<Lmer<A> as Vmer>::new(0); nregs];
    let pick_len = |r: &mut Rng| -> usize {
        let c = [0usize, 1, 2, 27, 28, 29, 31, 32, 33, 59, 60, 61, 63, 64, 65, 91, 92, maxlen, maxlen.saturating_sub(1), maxlen.saturating_sub(4)];
        let l = *r.pick(&c);
        if l <= maxlen { l } else { r.range(0, maxlen) }
    };
    for step in 0..steps {
        let dst = r.below(nregs);
        let src = if r.chance(3, 4) { dst } else { r.below(nregs) };
        let cur_len = regs[src].len();
        let choice = if step == 0 { 0 } else { r.below(10) };
        let (name, args, f): (&str, Value, Box<dyn Fn(&Lmer<A>) -> Lmer<A>>) = match choice {
            0 => {
                let l = pick_len(r);
                ("new", json!([l]), Box::new(move |_| <Lmer<A> as Vmer>::new(l)))
            }
            1 => {
                let l = pick_len(r);
                let s = r.dna(l, &[0, 1, 2, 3]);
                let s2 = s.clone();
                ("from_slice", json!([s]), Box::new(move |_| <Lmer<A> as Vmer>::from_slice(&s2)))
            }
            2 | 3 if cur_len > 0 => {
                let p = r.below(cur_len);
                let v = r.base();
                let imm = r.chance(1, 3);
                ("set", if imm { json!([p, v, "imm"]) } else { json!([p, v]) }, Box::new(move |x| {
                    if imm {
                        x.set(p, v)
                    } else {
                        let mut y = *x;
                        y.set_mut(p, v);
                        y
                    }
                }))
            }
            4 | 5 | 6 if cur_len > 0 => {
                // runs crossing a word boundary and runs touching the word holding the length byte are frequent
                let p = if r.chance(1, 2) {
                    let edge = *r.pick(&[0usize, 31, 32, 33, 63, 64, cur_len - 1, cur_len.saturating_sub(5), 20, 50]);
                    std::cmp::min(edge, cur_len - 1)
                } else {
                    r.below(cur_len)
                };
                let maxn = std::cmp::min(32, cur_len - p);
                // a run of no bases at all is a legal packed write too: it must change nothing
                let n = if r.chance(1, 12) { 0 } else if r.chance(1, 2) { maxn } else { r.range(1, maxn) };
                let run = r.dna(n, &[0, 1, 2, 3]);
                let junk = if r.chance(1, 3) { 0 } else if r.chance(1, 2) { u64::MAX } else { r.next() };
                let val = pack_run(&run, junk);
                let imm = r.chance(1, 3);
                ("set_slice", if imm { json!([p, run, "imm"]) } else { json!([p, run]) }, Box::new(move |x| {
                    if imm {
                        // the copy-returning variant of the MerImmut blanket trait
                        x.set_slice(p, n, val)
                    } else {
                        let mut y = *x;
                        y.set_slice_mut(p, n, val);
                        y
                    }
                }))
            }
            7 => ("rc", json!([]), Box::new(|x| x.rc())),
            8 => ("copy", json!([]), Box::new(|x| *x)),
            _ => {
                let t: Vec<u8> = (0..regs[src].len()).map(|i| regs[src].get(i)).collect();
                // same string by another route: new + set one at a time
                let t2 = t.clone();
                ("from_slice", json!([t]), Box::new(move |_| {
                    let mut y = <Lmer<A> as Vmer>::new(t2.len());
                    for (i, b) in t2.iter().enumerate() {
                        y = y.set(i, *b);
                    }
                    y
                }))
            }
        };
        let desc = json!({"op":"lop","size":size,"name":name,"dst":dst,"src":src,"args":args});
        let case = sink.begin_case(&desc);
        let s = regs[src];
        let res = guard(|| {
            let v = f(&s);
            let mut regs2 = regs.clone();
            regs2[dst] = v;
            (v, lmer_obs(&v, &regs2))
        });
        sink.end_case();
        let mut e = desc;
        e["case"] = json!(case);
        match res {
            Ok((v, obs)) => {
                regs[dst] = v;
                e["obs"] = obs;
                e["panic"] = json!("");
                sink.emit(e);
            }
            Err(m) => {
                e["obs"] = json!({});
                e["panic"] = json!(m);
                sink.emit(e);
                return;
            }
        }
    }
}

// ------------------------------------------------------------------------------------------ rc coherence (C12)

fn kmer_rc<K: Kmer>(s: &[u8]) -> (Vec<u8>, Vec<u8>, bool, bool) {
    let x = K::from_bytes(s);
    let (m, f) = x.min_rc_flip();
    (mer_bases(&x.rc()), mer_bases(&m), f, x.is_palindrome())
}
fn kmers_of<K: Kmer, V: Vmer>(v: &V) -> Vec<Vec<u8>> {
    v.iter_kmers::<K>().map(|k| mer_bases(&k)).collect()
}

pub fn rcx_event(sink: &Sink, r: &mut Rng) {
    let lens = [0usize, 1, 2, 3, 4, 5, 8, 12, 16, 20, 30, 31, 32, 33, 40, 48, 63, 64, 65, 92, 100];
    let n = *r.pick(&lens);
    let s = if n % 2 == 0 && n > 0 && r.chance(1, 3) {
        let h = r.dna(n / 2, &[0, 1, 2, 3]);
        let mut t = h.clone();
        t.extend(rc_bytes(&h));
        t
    } else {
        r.dna(n, &[0, 1, 2, 3])
    };
    let kk = *r.pick(&[2usize, 3, 4, 5, 8, 16, 31, 32]);
    let pad = *r.pick(&[1usize, 3, 5, 31, 32, 33, 40]);
    let tail = *r.pick(&[0usize, 1, 4, 32]);
    let desc = json!({"op":"rcx","s":s,"kk":kk,"pad":pad,"tail":tail});
    let case = sink.begin_case(&desc);
    let res = guard(|| {
        let mut out: Vec<Value> = Vec::new();
        let ds = DnaString::from_bytes(&s);
        let drc = ds.rc();
        out.push(json!({"ty":"DnaString","rc":drc.to_bytes(),"rcrc":drc.rc().to_bytes(),
            "kmers_rc": with_kmer_v!(kk, kmers_of(&drc))}));
        let sl = ds.slice(0, n).rc();
        out.push(json!({"ty":"DnaStringSlice","rc":sl.bytes(),"rcrc":sl.rc().bytes(),
            "kmers_rc": if n >= kk { (0..=(n-kk)).map(|i| with_kmer!(kk, slice_kmer(&sl, i))).collect::<Vec<_>>() } else { vec![] }}));
        // the same view at a non-zero offset inside a longer string, reverse-complemented twice over
        let mut padded: Vec<u8> = (0..pad).map(|i| ((i * 7 + 3) % 4) as u8).collect();
        padded.extend_from_slice(&s);
        padded.extend((0..tail).map(|i| ((i * 5 + 1) % 4) as u8));
        let dp = DnaString::from_bytes(&padded);
        let so = dp.slice(pad, pad + n).rc();
        out.push(json!({"ty":"DnaStringSlice@offset","rc":so.bytes(),"rcrc":so.rc().bytes(),
            "kmers_rc": if n >= kk { (0..=(n-kk)).map(|i| with_kmer!(kk, slice_kmer(&so, i))).collect::<Vec<_>>() } else { vec![] }}));
        let so3 = dp.slice(pad, pad + n).rc().rc().rc();
        out.push(json!({"ty":"DnaStringSlice@offset.rc3","rc":so3.bytes(),"rcrc":so3.rc().bytes(),
            "kmers_rc": with_kmer_v!(kk, kmers_of(&so3))}));
        if n <= 28 {
            let l = Lmer1::from_slice(&s);
            out.push(json!({"ty":"Lmer1","rc":mer_bases(&l.rc()),"rcrc":mer_bases(&l.rc().rc()),"kmers_rc": with_kmer_v!(kk, kmers_of(&l.rc()))}));
        }
        if n <= 60 {
            let l = Lmer2::from_slice(&s);
            out.push(json!({"ty":"Lmer2","rc":mer_bases(&l.rc()),"rcrc":mer_bases(&l.rc().rc()),"kmers_rc": with_kmer_v!(kk, kmers_of(&l.rc()))}));
        }
        if n <= 92 {
            let l = Lmer3::from_slice(&s);
            out.push(json!({"ty":"Lmer3","rc":mer_bases(&l.rc()),"rcrc":mer_bases(&l.rc().rc()),"kmers_rc": with_kmer_v!(kk, kmers_of(&l.rc()))}));
        }
        if n <= 188 && r.clone().chance(1, 2) {
            let l = <Lmer<[u64; 6]> as Vmer>::from_slice(&s);
            out.push(json!({"ty":"Lmer6","rc":mer_bases(&l.rc()),"rcrc":mer_bases(&l.rc().rc()),"kmers_rc": with_kmer_v!(kk, kmers_of(&l.rc()))}));
        }
        // windows of the reverse-complemented offset view: the window [a, b) of rc(s) is the rc of s[n-b, n-a)
        let mut wins: Vec<Value> = Vec::new();
        let mut rr = r.clone();
        for _ in 0..4 {
            let a = rr.range(0, n);
            let b = rr.range(a, n);
            wins.push(json!([a, b, so.slice(a, b).bytes(), so.slice(a, b).rc().bytes()]));
        }
        out.push(json!({"ty":"windows","rc":so.bytes(),"rcrc":so.rc().bytes(),"kmers_rc": with_kmer_v!(kk, kmers_of(&so)),"wins":wins}));
        let mut km = json!({});
        if ALL_K.contains(&n) {
            let (rcv, canon, flip, pal) = with_kmer!(n, kmer_rc(&s));
            let (_, canon2, _, _) = with_kmer!(n, kmer_rc(&rcv));
            km = json!({"rc": rcv, "canon": canon, "flip": flip, "pal": pal, "canon_of_rc": canon2});
        }
        (out, km)
    });
    sink.end_case();
    let mut e = desc;
    e["case"] = json!(case);
    match res {
        Ok((out, km)) => {
            e["res"] = json!(out);
            e["kmer"] = km;
            e["panic"] = json!("");
        }
        Err(m) => {
            e["res"] = json!([]);
            e["kmer"] = json!({});
            e["panic"] = json!(m);
        }
    }
    sink.emit(e);
}
fn slice_kmer<K: Kmer>(v: &DnaStringSlice, i: usize) -> Vec<u8> {
    mer_bases(&v.get_kmer::<K>(i))
}

/// Hamming-distance-1 neighbours of a k-mer (neighbors.rs)
fn hd1_of<K: Kmer>(s: &[u8]) -> Vec<Vec<u8>> {
    debruijn::neighbors::KmerOneHammingIter::new(K::from_bytes(s)).map(|k| mer_bases(&k)).collect()
}
pub fn hd1_event(sink: &Sink, r: &mut Rng) {
    let k = *r.pick(&ALL_K);
    let s = r.dna(k, &[0, 1, 2, 3]);
    let desc = json!({"op":"hd1","K":k,"s":s});
    let case = sink.begin_case(&desc);
    let res = guard(|| with_kmer!(k, hd1_of(&s)));
    sink.end_case();
    let mut e = desc;
    e["case"] = json!(case);
    match res {
        Ok(v) => {
            e["nb"] = json!(v);
            e["panic"] = json!("");
        }
        Err(m) => {
            e["nb"] = json!([]);
            e["panic"] = json!(m);
        }
    }
    sink.emit(e);
}

/// all 256 extension sets through the whole Exts API
pub fn exts_events(sink: &Sink) {
    for v in 0..=255u8 {
        let e = Exts::new(v);
        let rc = e.rc();
        let co = e.complement();
        let rv = e.reverse();
        let mut ev = json!({"op":"exts","val":v,"case":v,"panic":"",
            "l":exts_l(e),"r":exts_r(e),
            "rc":{"l":exts_l(rc),"r":exts_r(rc)},"complement":{"l":exts_l(co),"r":exts_r(co)},"reverse":{"l":exts_l(rv),"r":exts_r(rv)},
            "nl":e.num_exts_l(),"nr":e.num_exts_r(),
            "has": (0..4u8).map(|b| json!([e.has_ext(Dir::Left, b), e.has_ext(Dir::Right, b)])).collect::<Vec<_>>(),
            "uniq":[e.get_unique_extension(Dir::Left).map(|x| x as i64).unwrap_or(-1), e.get_unique_extension(Dir::Right).map(|x| x as i64).unwrap_or(-1)],
            "single":{"l":exts_l(e.single_dir(Dir::Left)),"lr":exts_r(e.single_dir(Dir::Left)),"r":exts_l(e.single_dir(Dir::Right)),"rr":exts_r(e.single_dir(Dir::Right))},
            "dbg": format!("{:?}", e)});
        // constructors
        let other = Exts::new(v.rotate_left(3) ^ 0x5a);
        let mg = Exts::merge(e, other);
        let ad = e.add(other);
        let fs = Exts::from_single_dirs(e, other);
        ev["other"] = json!({"l":exts_l(other),"r":exts_r(other)});
        ev["merge"] = json!({"l":exts_l(mg),"r":exts_r(mg)});
        ev["add"] = json!({"l":exts_l(ad),"r":exts_r(ad)});
        ev["from_single_dirs"] = json!({"l":exts_l(fs),"r":exts_r(fs)});
        let b1 = v & 3;
        let b2 = (v >> 2) & 3;
        let mk = Exts::mk(b1, b2);
        let st = e.set(Dir::Left, b1).set(Dir::Right, b2);
        ev["mk"] = json!({"a":b1,"b":b2,"l":exts_l(mk),"r":exts_r(mk),"ml":exts_l(Exts::mk_left(b1)),"mlr":exts_r(Exts::mk_left(b1)),
            "mr":exts_r(Exts::mk_right(b2)),"mrl":exts_l(Exts::mk_right(b2)),"set_l":exts_l(st),"set_r":exts_r(st)});
        sink.emit(ev);
    }
}

// ------------------------------------------------------------------------------------------ extraction (C13)

fn extract_from<K: Kmer, V: Vmer>(v: &V, exts: Exts, positions: &[usize]) -> Value {
    let n = v.len();
    let k = K::k();
    let kmers: Vec<Vec<u8>> = v.iter_kmers::<K>().map(|x| mer_bases(&x)).collect();
    let kx: Vec<Value> = v
        .iter_kmer_exts::<K>(exts)
        .map(|(x, e)| json!({"k": mer_bases(&x), "l": exts_l(e), "r": exts_r(e)}))
        .collect();
    let mut o = json!({"kmers": kmers, "kmer_exts": kx});
    if n >= k {
        o["first"] = json!(mer_bases(&v.first_kmer::<K>()));
        o["last"] = json!(mer_bases(&v.last_kmer::<K>()));
        let (a, b) = v.both_term_kmer::<K>();
        o["both"] = json!([mer_bases(&a), mer_bases(&b)]);
        o["term"] = json!([mer_bases(&v.term_kmer::<K>(Dir::Left)), mer_bases(&v.term_kmer::<K>(Dir::Right))]);
        o["at"] = json!(positions.iter().filter(|p| **p + k <= n).map(|p| json!([p, mer_bases(&v.get_kmer::<K>(*p))])).collect::<Vec<_>>());
    } else {
        o["first"] = json!([]);
        o["last"] = json!([]);
        o["both"] = json!([]);
        o["term"] = json!([]);
        o["at"] = json!([]);
    }
    o
}

fn extract_all<K: Kmer>(s: &[u8], exts: Exts, positions: &[usize], off: usize, tail: usize) -> Vec<Value> {
    let mut out = Vec::new();
    let n = s.len();
    let ds = DnaString::from_bytes(s);
    let mut o = extract_from::<K, _>(&ds, exts, positions);
    o["container"] = json!("DnaString");
    out.push(o);
    // forward slice at an offset inside a longer string
    let mut padded: Vec<u8> = (0..off).map(|i| ((i * 7 + 1) % 4) as u8).collect();
    padded.extend_from_slice(s);
    padded.extend((0..tail).map(|i| ((i * 5 + 2) % 4) as u8));
    let dp = DnaString::from_bytes(&padded);
    let sl = dp.slice(off, off + n);
    let mut o = extract_from::<K, _>(&sl, exts, positions);
    o["container"] = json!("slice");
    out.push(o);
    // reverse-complemented slice spelling the same string
    let mut padded2: Vec<u8> = (0..tail).map(|i| ((i * 3 + 1) % 4) as u8).collect();
    padded2.extend(rc_bytes(s));
    padded2.extend((0..off).map(|i| ((i * 11 + 3) % 4) as u8));
    let dp2 = DnaString::from_bytes(&padded2);
    let sl2 = dp2.slice(tail, tail + n).rc();
    let mut o = extract_from::<K, _>(&sl2, exts, positions);
    o["container"] = json!("rc-slice");
    out.push(o);
    let db = DnaBytes(s.to_vec());
    let mut o = extract_from::<K, _>(&db, exts, positions);
    o["container"] = json!("DnaBytes");
    out.push(o);
    let dsl = DnaSlice(s);
    let mut o = extract_from::<K, _>(&dsl, exts, positions);
    o["container"] = json!("DnaSlice");
    out.push(o);
    if n <= 28 {
        let mut o = extract_from::<K, _>(&Lmer1::from_slice(s), exts, positions);
        o["container"] = json!("Lmer1");
        out.push(o);
    }
    if n <= 60 {
        let mut o = extract_from::<K, _>(&Lmer2::from_slice(s), exts, positions);
        o["container"] = json!("Lmer2");
        out.push(o);
    }
    if n <= 92 {
        let mut o = extract_from::<K, _>(&Lmer3::from_slice(s), exts, positions);
        o["container"] = json!("Lmer3");
        out.push(o);
    }
    if n <= 124 {
        let mut o = extract_from::<K, _>(&<Lmer<[u64; 4]> as Vmer>::from_slice(s), exts, positions);
        o["container"] = json!("Lmer4");
        out.push(o);
    }
    if n <= 156 {
        let mut o = extract_from::<K, _>(&<Lmer<[u64; 5]> as Vmer>::from_slice(s), exts, positions);
        o["container"] = json!("Lmer5");
        out.push(o);
    }
    if n <= 188 {
        let mut o = extract_from::<K, _>(&<Lmer<[u64; 6]> as Vmer>::from_slice(s), exts, positions);
        o["container"] = json!("Lmer6");
        out.push(o);
    }
    // bulk constructors
    let ascii: Vec<u8> = s.iter().map(|b| b"ACGT"[*b as usize]).collect();
    out.push(json!({"container":"kmers_from_bytes","kmers": K::kmers_from_bytes(s).iter().map(mer_bases).collect::<Vec<_>>(), "bulk": true}));
    out.push(json!({"container":"kmers_from_ascii","kmers": K::kmers_from_ascii(&ascii).iter().map(mer_bases).collect::<Vec<_>>(), "bulk": true}));
    out
}

pub fn extract_event(sink: &Sink, r: &mut Rng, thorough: bool) {
    let ks = [2usize, 3, 4, 5, 8, 16, 20, 31, 32, 48, 64];
    let k = *r.pick(&ks);
    // (124 / 156 / 188 = capacity of 4 / 5 / 6-word fixed-size strings; 127-129: their length no longer fits 7 bits)
    let lens: Vec<usize> = vec![0, 1, k.saturating_sub(1), k, k + 1, 31, 32, 33, 63, 64, 65, 66, 96, 100, k + 31, k + 32, k + 33, 124, 127, 128, 129, 156, 160, 188];
    let n = if r.chance(2, 3) { *r.pick(&lens) } else { r.range(0, 100) };
    let s = r.dna(n, &[0, 1, 2, 3]);
    let exts = Exts::new(if n <= 12 || r.chance(1, 2) { (r.next() & 0xff) as u8 } else { 0 });
    let positions: Vec<usize> = if thorough || n <= 40 { (0..n).collect() } else {
        let mut p: Vec<usize> = vec![0, 1, 30, 31, 32, 33, 62, 63, 64, 65];
        p.push(n.saturating_sub(k));
        for _ in 0..6 { p.push(r.below(n + 1)); }
        p.sort();
        p.dedup();
        p
    };
    let off = *r.pick(&[0usize, 1, 5, 31, 32, 33, 40]);
    let tail = *r.pick(&[0usize, 1, 3, 32, 35]);
    let desc = json!({"op":"extract","K":k,"s":s,"exts":{"l":exts_l(exts),"r":exts_r(exts)},"off":off,"tail":tail});
    let case = sink.begin_case(&desc);
    // Exts::from_slice_bounds / from_dna_string: the flanks of a window of the sequence (none at a sequence end)
    let mut windows: Vec<(usize, usize)> = vec![(0, n), (0, n / 2), (n / 2, n - n / 2)];
    for _ in 0..4 {
        let a = r.range(0, n);
        windows.push((a, r.range(0, n - a)));
    }
    let res = guard(|| {
        let mut v = with_kmer!(k, extract_all(&s, exts, &positions, off, tail));
        let ds = DnaString::from_bytes(&s);
        let fl: Vec<Value> = windows.iter().map(|(a, len)| {
            let e1 = Exts::from_slice_bounds(&s, *a, *len);
            let e2 = Exts::from_dna_string(&ds, *a, *len);
            json!({"start": a, "len": len, "l": exts_l(e1), "r": exts_r(e1), "l2": exts_l(e2), "r2": exts_r(e2)})}).collect();
        (v, fl)
    });
    sink.end_case();
    let mut e = desc;
    e["case"] = json!(case);
    match res {
        Ok((v, fl)) => {
            e["res"] = json!(v);
            e["flanks"] = json!(fl);
            e["panic"] = json!("");
        }
        Err(m) => {
            e["res"] = json!([]);
            e["flanks"] = json!([]);
            e["panic"] = json!(m);
        }
    }
    sink.emit(e);
}

// ------------------------------------------------------------------------------------------ ASCII ingestion (C16)

pub fn ascii_event(sink: &Sink, input: &[u8], name: &[u8], name2: &[u8]) {
    let desc = json!({"op":"ascii","input":input,"name":name,"name2":name2});
    let case = sink.begin_case(&desc);
    let res = guard(|| {
        let a = DnaString::from_acgt_bytes(input);
        let h1 = DnaString::from_acgt_bytes_hashn(input, name);
        let h2 = DnaString::from_acgt_bytes_hashn(input, name);
        // same read name, another input that agrees on which positions are N: same substitutions
        let mut other: Vec<u8> = input.to_vec();
        for (i, c) in other.iter_mut().enumerate() {
            if debruijn::is_valid_base(*c) {
                *c = b"ACGT"[(i * 3 + 1) % 4];
            }
        }
        let h3 = DnaString::from_acgt_bytes_hashn(&other, name);
        let h4 = DnaString::from_acgt_bytes_hashn(input, name2);
        // the substitution at a position must not depend on the OTHER non-ACGT positions of the read: keep one N, repair the rest
        let npos: Vec<usize> = input.iter().enumerate().filter(|(_, c)| !debruijn::is_valid_base(**c)).map(|(i, _)| i).collect();
        let mut single: Vec<Value> = Vec::new();
        for (j, p) in npos.iter().enumerate() {
            if j < 3 || j + 2 >= npos.len() || j % 7 == 0 {
                let mut one: Vec<u8> = input.to_vec();
                for q in &npos {
                    if q != p {
                        one[*q] = b'A';
                    }
                }
                single.push(json!([p, DnaString::from_acgt_bytes_hashn(&one, name).get(*p)]));
            }
        }
        let is_ascii = input.iter().all(|c| *c < 128);
        let (st, strict, kfa) = if is_ascii {
            let t = std::str::from_utf8(input).unwrap();
            let st = DnaString::from_dna_string(t);
            let strict: Vec<Vec<u8>> = DnaString::from_dna_only_string(t).iter().map(|d| d.to_bytes()).collect();
            (json!(st.to_bytes()), json!(strict), json!(true))
        } else {
            (json!([]), json!([]), json!(false))
        };
        json!({"acgt": a.to_bytes(), "acgt_len": a.len(), "render": a.to_ascii_vec(), "text": a.to_string(),
               "hashn": h1.to_bytes(), "hashn_again": h2.to_bytes(), "hashn_other": h3.to_bytes(), "hashn_name2": h4.to_bytes(), "hashn_single": single,
               "str": st, "strict": strict, "is_ascii": kfa,
               "b2b": input.iter().map(|c| debruijn::base_to_bits(*c)).collect::<Vec<u8>>(),
               "valid": input.iter().map(|c| debruijn::is_valid_base(*c)).collect::<Vec<bool>>(),
               "only": input.iter().map(|c| debruijn::dna_only_base_to_bits(*c).map(|x| x as i64).unwrap_or(-1)).collect::<Vec<i64>>(),
               "eq_str": if is_ascii { DnaString::from_dna_string(std::str::from_utf8(input).unwrap()) == a } else { true }})
    });
    sink.end_case();
    let mut e = desc;
    e["case"] = json!(case);
    match res {
        Ok(v) => {
            e["out"] = v;
            e["panic"] = json!("");
        }
        Err(m) => {
            e["out"] = json!({});
            e["panic"] = json!(m);
        }
    }
    sink.emit(e);
}

pub fn ascii_events(sink: &Sink, r: &mut Rng, thorough: bool, n_random: usize) {
    // every byte value at every lane of a 32-byte block (block 0 or block 1), remaining lanes valid bases
    let lanes: Vec<usize> = (0..32).collect();
    for byte in 0..=255u8 {
        // 32 lanes folded into 4 (quick) or 8 (thorough) inputs per byte value: every lane is hit by every byte
        let groups = if thorough { 8 } else { 4 };
        for g in 0..groups {
            let total = *r.pick(&[32usize, 64, 33, 40, 96, 70]);
            let mut inp: Vec<u8> = (0..total).map(|_| *r.pick(b"ACGTacgt")).collect();
            for lane in lanes.iter().filter(|l| **l % groups == g) {
                let pos = if total >= 64 && r.chance(1, 2) { 32 + lane } else { *lane };
                inp[pos] = byte;
            }
            ascii_event(sink, &inp, b"read/1", b"read/2");
        }
    }
    // every length 0..130 (zero, one, several vector blocks plus a tail)
    for len in 0..=130usize {
        let inp: Vec<u8> = (0..len).map(|_| *r.pick(b"ACGTacgtNn")).collect();
        ascii_event(sink, &inp, b"r", b"s");
    }
    for _ in 0..n_random {
        let len = r.range(0, 140);
        let style = r.below(4);
        let inp: Vec<u8> = (0..len)
            .map(|_| match style {
                0 => (r.next() & 0xff) as u8,
                1 => *r.pick(b"ACGTN"),
                2 => *r.pick(b"acgtACGT"),
                _ => *r.pick(b"NNNN-ACGTacgt.*"),
            })
            .collect();
        let nm: Vec<u8> = (0..r.range(0, 8)).map(|_| (r.next() & 0x7f) as u8).collect();
        ascii_event(sink, &inp, &nm, b"other");
    }
}

// ------------------------------------------------------------------------------------------ drivers

macro_rules! all_kmer_types {
    ($f:ident ( $($args:expr),* )) => {{
        use debruijn::kmer::*;
        $f::<Kmer2>($($args),*); $f::<Kmer3>($($args),*); $f::<Kmer4>($($args),*); $f::<Kmer5>($($args),*);
        $f::<Kmer6>($($args),*); $f::<Kmer8>($($args),*); $f::<Kmer10>($($args),*); $f::<Kmer12>($($args),*);
        $f::<Kmer14>($($args),*); $f::<Kmer15>($($args),*); $f::<Kmer16>($($args),*); $f::<Kmer20>($($args),*);
        $f::<Kmer24>($($args),*); $f::<Kmer30>($($args),*); $f::<VarIntKmer<u64, K31>>($($args),*); $f::<Kmer32>($($args),*);
        $f::<Kmer40>($($args),*); $f::<Kmer48>($($args),*); $f::<Kmer64>($($args),*);
    }};
}

pub fn record(sink: &Sink, args: &Args) {
    let seed = args.num("seed", 1);
    let mut r = Rng::new(seed);
    let thorough = args.thorough();
    let n = args.num("n", 20) as usize;
    let ev = args.list("events");
    let has = |s: &str| ev.is_empty() || ev.iter().any(|x| x == s);
    if has("kmer-exhaustive") {
        // every value of every type with K <= 5 (<= 6 thorough, with every position / run length); OR-basis + random values above
        let limit = if thorough { 4096 } else { 1024 };
        let nrand = if thorough { 1500 } else { 40 };
        let rr = &mut r;
        all_kmer_types!(kmer_exhaustive(sink, rr, limit, nrand, thorough));
    }
    if has("kmer-history") {
        for _ in 0..n {
            let rr = &mut r;
            all_kmer_types!(kmer_history(sink, rr, 40));
        }
    }
    if has("string") {
        for _ in 0..n * 6 {
            string_history(sink, &mut r, 30);
        }
    }
    if has("slice") {
        for _ in 0..n * 40 {
            slice_history(sink, &mut r);
        }
        for _ in 0..n * 25 {
            hamming_event(sink, &mut r);
        }
    }
    if has("lmer") {
        for _ in 0..n * 2 {
            lmer_history::<[u64; 1]>(sink, &mut r, 30, 1);
            lmer_history::<[u64; 2]>(sink, &mut r, 30, 2);
            lmer_history::<[u64; 3]>(sink, &mut r, 30, 3);
            lmer_history::<[u64; 4]>(sink, &mut r, 20, 4);
            lmer_history::<[u64; 5]>(sink, &mut r, 20, 5);
            lmer_history::<[u64; 6]>(sink, &mut r, 20, 6);
        }
    }
    if has("rcx") {
        exts_events(sink);
        for _ in 0..n * 60 {
            rcx_event(sink, &mut r);
        }
        for _ in 0..n * 10 {
            hd1_event(sink, &mut r);
        }
    }
    if has("extract") {
        for _ in 0..n * 30 {
            extract_event(sink, &mut r, thorough);
        }
    }
    if has("ascii") {
        ascii_events(sink, &mut r, thorough, n * 20);
    }
}

/// Replay TLC-generated k-mer transitions {"ty","K","pre","op","args","post"} on the real u8 types:
/// one two-step history per transition, judged by the abstract trace spec.
pub fn replay(sink: &Sink, args: &Args) {
    let f = std::fs::File::open(args.get("in", "")).expect("cannot open --in");
    for line in std::io::BufReader::new(f).lines() {
        let line = line.unwrap();
        let v: Value = match serde_json::from_str(&line) {
            Ok(v) => v,
            Err(_) => continue,
        };
        let k = v["K"].as_u64().unwrap() as usize;
        with_kmer!(k, replay_one(sink, &v));
    }
}
fn replay_one<K: Kmer + Send + Sync>(sink: &Sink, v: &Value) {
    let ty = std::any::type_name::<K>().replace("debruijn::kmer::", "");
    let pre = jbytes(&v["pre"]);
    let a = &v["args"];
    let op = match v["op"].as_str().unwrap_or("") {
        "rc" => KOp::Rc,
        "extend_left" => KOp::ExtL(a[0].as_u64().unwrap() as u8),
        "extend_right" => KOp::ExtR(a[0].as_u64().unwrap() as u8),
        "set" => KOp::Set(a[0].as_u64().unwrap() as usize, a[1].as_u64().unwrap() as u8),
        "set_slice" => KOp::SetSlice(a[0].as_u64().unwrap() as usize, jbytes(&a[1]), if a[2].as_u64().unwrap_or(0) == 0 { 0 } else { u64::MAX }),
        "min_rc" => KOp::MinRc,
        "from_rank" => KOp::FromRank(jbytes(&a[0])),
        _ => return,
    };
    sink.emit(json!({"op":"begin","dom":"kmer","ty":ty,"K":K::k(),"Knom":nominal_k::<K>(),"nregs":2,"case":0,"panic":""}));
    let mut regs: Vec<K> = vec![K::empty(); 2];
    if emit_kop::<K>(sink, &ty, &mut regs, 0, 0, &KOp::FromBytes(pre)) {
        emit_kop::<K>(sink, &ty, &mut regs, 1, 0, &op);
    }
}
