//! vh: conformance harness binding the TLA+ specification to the real debruijn crate.
//!   vh record <domain> --out FILE [--seed N] [--tier quick|thorough] [--n N] [--events a,b,c] [--part i/n]
//!   vh replay <domain> --in FILE --out FILE
mod datadom;
mod graphdom;
mod graphdom2;
mod graphrec;
mod seqdom;
mod util;

use std::collections::HashMap;

pub struct Args {
    pub cmd: String,
    pub domain: String,
    pub opts: HashMap<String, String>,
}
impl Args {
    pub fn get(&self, k: &str, default: &str) -> String {
        self.opts.get(k).cloned().unwrap_or_else(|| default.to_string())
    }
    pub fn num(&self, k: &str, default: u64) -> u64 {
        self.opts
            .get(k)
            .and_then(|v| v.parse().ok())
            .unwrap_or(default)
    }
    pub fn list(&self, k: &str) -> Vec<String> {
        self.opts
            .get(k)
            .map(|v| v.split(',').filter(|s| !s.is_empty()).map(|s| s.to_string()).collect())
            .unwrap_or_default()
    }
    pub fn thorough(&self) -> bool {
        self.get("tier", "quick") == "thorough"
    }
}

fn main() {
    let argv: Vec<String> = std::env::args().collect();
    if argv.len() < 3 {
        eprintln!("usage: vh record|replay <domain> --out FILE [...]");
        std::process::exit(2);
    }
    let mut opts = HashMap::new();
    let mut i = 3;
    while i < argv.len() {
        if let Some(k) = argv[i].strip_prefix("--") {
            let v = if i + 1 < argv.len() { argv[i + 1].clone() } else { String::new() };
            opts.insert(k.to_string(), v);
            i += 2;
        } else {
            i += 1;
        }
    }
    let args = Args {
        cmd: argv[1].clone(),
        domain: argv[2].clone(),
        opts,
    };
    util::install_panic_hook();
    let out = args.get("out", "");
    if out.is_empty() {
        eprintln!("--out required");
        std::process::exit(2);
    }
    let sink = util::Sink::new(&out, args.num("case-cap", 60));
    match (args.cmd.as_str(), args.domain.as_str()) {
        ("record", "graph") => graphrec::record(&sink, &args),
        ("replay", "graph") => graphrec::replay(&sink, &args),
        ("rerun", "graph") => graphrec::rerun(&sink, &args),
        ("record", "seq") => seqdom::record(&sink, &args),
        ("record", "data") => datadom::record(&sink, &args),
        ("replay", "data") => datadom::replay(&sink, &args),
        (c, d) => {
            eprintln!("unknown command/domain {} {}", c, d);
            std::process::exit(2);
        }
    }
    sink.flush();
    eprintln!(
        "vh: {} events, {} cases",
        sink.n_events.load(std::sync::atomic::Ordering::SeqCst),
        sink.case.load(std::sync::atomic::Ordering::SeqCst)
    );
}
