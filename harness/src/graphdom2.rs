//! Graph domain, part 2: sharded pipeline (C04), strand symmetry (C06), node iterators (C18),
//! index construction (C19), exports and persistence (C20).
use crate::graphdom::*;
use crate::util::*;
use boomphf::hashmap::BoomHashMap2;
use debruijn::compression::{compress_graph, compress_kmers, compress_kmers_with_hash};
use debruijn::dna_string::DnaString;
use debruijn::filter::{self, CountFilter};
use debruijn::graph::{BaseGraph, DebruijnGraph};
use debruijn::msp;
use debruijn::vmer::Lmer3;
use debruijn::{Dir, DnaBytes, Exts, Kmer, Mer, Vmer};
use serde_json::{json, Value};
use std::collections::BTreeMap;

// ------------------------------------------------------------------------------------------ pipelines

/// direct pipeline: filter_kmers -> remove_censored_exts -> compress_kmers -> finish -> compress_graph(None)
pub fn direct_pipeline<K: Kmer + Send + Sync>(reads: &[Vec<u8>], stranded: bool, thr: usize, recompress: bool) -> Vec<NodeP> {
    let rows = table_from_reads::<K>(reads, stranded, thr, Mode::Sum);
    let rows = prune_rows::<K>(&rows, stranded);
    let spec = Spec { mode: Mode::Sum };
    let t = typed_rows::<K>(&rows);
    let g = compress_kmers(stranded, &spec, &t);
    if recompress {
        let out = compress_graph(stranded, &spec, g.finish(), None);
        project_graph(&out)
    } else {
        let mut dbg = g.finish();
        dbg.fix_exts(None);
        project_graph(&dbg)
    }
}

fn shard_tables<K: Kmer, P: Kmer, V: Vmer>(
    reads: &[Vec<u8>],
    stranded: bool,
    thr: usize,
    rc: bool,
    perm: Option<&[usize]>,
    prune: bool,
    use_hash: bool,
) -> (Vec<BaseGraph<K, D>>, usize) {
    let mut shards: BTreeMap<u32, Vec<(V, Exts, u32)>> = BTreeMap::new();
    for (i, rd) in reads.iter().enumerate() {
        for (b, e, v) in msp::msp_sequence::<P, V>(K::k(), rd, perm, rc) {
            shards.entry(b).or_default().push((v, e, i as u32));
        }
    }
    let spec = Spec { mode: Mode::Sum };
    let mut graphs = Vec::new();
    let ns = shards.len();
    for (_, seqs) in shards {
        let (map, all): (BoomHashMap2<K, Exts, u16>, Vec<K>) =
            filter::filter_kmers(&seqs, &Box::new(CountFilter::new(thr)), stranded, true, 4);
        let mut t: Vec<(K, (Exts, D))> = map.iter().map(|(k, e, d)| (*k, (*e, vec![*d as u32]))).collect();
        t.sort_by_key(|x| x.0);
        if prune {
            filter::remove_censored_exts_sharded(stranded, &mut t, &all);
        }
        let g = if use_hash && !prune {
            let mut keys = Vec::new();
            let mut exts = Vec::new();
            let mut data = Vec::new();
            for (k, (e, d)) in &t {
                keys.push(*k);
                exts.push(*e);
                data.push(d.clone());
            }
            compress_kmers_with_hash(stranded, &spec, &BoomHashMap2::new(keys, exts, data))
        } else {
            compress_kmers(stranded, &spec, &t)
        };
        graphs.push(g);
    }
    (graphs, ns)
}

/// sharded pipeline: msp_sequence -> per bucket filter_kmers / [remove_censored_exts_sharded] / compress ->
/// combine -> finish -> compress_graph(None)
pub fn sharded_pipeline<K: Kmer + Send + Sync, P: Kmer, V: Vmer>(
    reads: &[Vec<u8>],
    stranded: bool,
    thr: usize,
    rc: bool,
    perm: Option<&[usize]>,
    prune: bool,
    use_hash: bool,
) -> (Vec<NodeP>, usize) {
    let (graphs, ns) = shard_tables::<K, P, V>(reads, stranded, thr, rc, perm, prune, use_hash);
    let spec = Spec { mode: Mode::Sum };
    let combined = BaseGraph::combine(graphs.into_iter());
    // an empty input yields no shard: combine of nothing is an (unstranded-looking) empty graph
    let out = compress_graph(stranded, &spec, combined.finish(), None);
    (project_graph(&out), ns)
}

macro_rules! with_p {
    ($p:expr, $f:ident :: < $k:ty, $v:ty > ( $($args:expr),* )) => {{
        use debruijn::kmer::*;
        match $p {
            2 => $f::<$k, Kmer2, $v>($($args),*),
            3 => $f::<$k, Kmer3, $v>($($args),*),
            4 => $f::<$k, Kmer4, $v>($($args),*),
            5 => $f::<$k, Kmer5, $v>($($args),*),
            6 => $f::<$k, Kmer6, $v>($($args),*),
            8 => $f::<$k, Kmer8, $v>($($args),*),
            other => panic!("unsupported P {}", other),
        }
    }};
}

pub fn sharded_dyn<K: Kmer + Send + Sync>(
    reads: &[Vec<u8>],
    stranded: bool,
    thr: usize,
    rc: bool,
    p: usize,
    perm: Option<&[usize]>,
    prune: bool,
    use_hash: bool,
    vt: &str,
) -> (Vec<NodeP>, usize) {
    match vt {
        "DnaString" => with_p!(p, sharded_pipeline::<K, DnaString>(reads, stranded, thr, rc, perm, prune, use_hash)),
        "Lmer3" => with_p!(p, sharded_pipeline::<K, Lmer3>(reads, stranded, thr, rc, perm, prune, use_hash)),
        _ => with_p!(p, sharded_pipeline::<K, DnaBytes>(reads, stranded, thr, rc, perm, prune, use_hash)),
    }
}

pub struct PipeCfg {
    pub p: usize,
    pub rc: bool,
    pub perm: Option<Vec<usize>>,
    pub prune: bool,
    pub use_hash: bool,
    pub vt: &'static str,
}

pub fn gen_pipecfg(r: &mut Rng, k: usize, stranded: bool) -> PipeCfg {
    let ps: Vec<usize> = [2usize, 3, 4, 5, 6, 8].iter().cloned().filter(|p| *p < k).collect();
    let p = *r.pick(&ps);
    let rc = if stranded { r.chance(1, 2) } else { true };
    let perm = if r.chance(1, 2) {
        let mut v: Vec<usize> = (0..(1usize << (2 * p))).collect();
        r.shuffle(&mut v);
        Some(v)
    } else {
        None
    };
    let mut vts = vec!["DnaBytes", "DnaString"];
    if 2 * k - p <= 92 {
        vts.push("Lmer3");
    }
    PipeCfg { p, rc, perm, prune: r.chance(1, 2), use_hash: r.chance(1, 2), vt: *r.pick(&vts) }
}

/// `pipeline` event (C04): the same read set through the direct and the sharded pipeline.
pub fn ev_pipeline<K: Kmer + Send + Sync>(sink: &Sink, r: &mut Rng, inp: &GInput) {
    let cfg = gen_pipecfg(r, inp.k, inp.stranded);
    let desc = json!({"op":"pipeline","K":inp.k,"P":cfg.p,"st":inp.stranded,"thr":inp.thr,"rc":cfg.rc,
        "perm": cfg.perm.clone().unwrap_or_default(), "prune":cfg.prune,"hash":cfg.use_hash,"vt":cfg.vt,
        "reads":inp.reads,"fam":inp.fam,"mode":"sum"});
    let case = sink.begin_case(&desc);
    let res = guard(|| {
        let d = direct_pipeline::<K>(&inp.reads, inp.stranded, inp.thr, true);
        let (s, ns) = sharded_dyn::<K>(&inp.reads, inp.stranded, inp.thr, cfg.rc, cfg.p, cfg.perm.as_deref(), cfg.prune, cfg.use_hash, cfg.vt);
        (d, s, ns)
    });
    sink.end_case();
    let mut e = desc;
    e["case"] = json!(case);
    if cfg.perm.as_ref().map(|p| p.len() > 64).unwrap_or(false) {
        e["perm"] = json!([]); // too long to be useful in the event; the seed reproduces it
        e["perm_elided"] = json!(true);
    }
    match res {
        Ok((d, s, ns)) => {
            e["direct"] = nodes_json(&d);
            e["sharded"] = nodes_json(&s);
            e["nshards"] = json!(ns);
            e["panic"] = json!("");
        }
        Err(m) => {
            e["direct"] = json!([]);
            e["sharded"] = json!([]);
            e["nshards"] = json!(0);
            e["panic"] = json!(m);
        }
    }
    sink.emit(e);
}

/// real edge lists of a node list (finished with the real index): [[node, dir, [[target, side, flip]..]]..]
pub fn real_edges<K: Kmer + Send + Sync>(nodes: &[NodeP], stranded: bool) -> Value {
    let g = base_from_nodes::<K>(nodes, stranded).finish();
    let mut ev: Vec<Value> = Vec::new();
    for i in 0..g.len() {
        let n = g.get_node(i);
        for d in [Dir::Left, Dir::Right] {
            ev.push(json!([i, dir_str(d), n.edges(d).iter().map(|x| json!([x.0, dir_str(x.1), x.2])).collect::<Vec<_>>()]));
        }
    }
    json!(ev)
}

/// `strand` event (C06): a read set and the same set with a subset of reads reverse-complemented,
/// through table construction and every pipeline variant.
pub fn ev_strand<K: Kmer + Send + Sync>(sink: &Sink, r: &mut Rng, inp: &GInput, flips: &[bool]) {
    let reads2: Vec<Vec<u8>> = inp
        .reads
        .iter()
        .zip(flips.iter())
        .map(|(s, f)| if *f { rc_bytes(s) } else { s.clone() })
        .collect();
    let cfg = gen_pipecfg(r, inp.k, inp.stranded);
    // every filter_kmers call of the run (table, direct, per shard) makes about this many bucket passes (1 = the default budget)
    let slices = *r.pick(&[1usize, 1, 2, 3, 7, 64, 256]);
    let desc = json!({"op":"strand","K":inp.k,"st":inp.stranded,"thr":inp.thr,"reads":inp.reads,"flips":flips,
        "reads2":reads2,"P":cfg.p,"rc":cfg.rc,"vt":cfg.vt,"fam":inp.fam,"mode":"sum","slices":slices});
    let case = sink.begin_case(&desc);
    let res = guard(|| {
        let run = |rd: &[Vec<u8>]| {
            let nk: usize = rd.iter().map(|s| s.len().saturating_sub(inp.k - 1)).sum();
            let kmer_mem = nk * std::mem::size_of::<(K, u32)>();
            if slices > 1 && kmer_mem > 0 {
                // table_from_reads asks for 4 units of memory
                debruijn::verif_hooks::set_bytes_per_unit(Some(std::cmp::max(1, kmer_mem / (4 * (slices - 1)))));
            }
            let t = table_from_reads::<K>(rd, inp.stranded, inp.thr, Mode::Sum);
            let direct = direct_pipeline::<K>(rd, inp.stranded, inp.thr, false);
            let (sharded, _) = sharded_dyn::<K>(rd, inp.stranded, inp.thr, cfg.rc, cfg.p, cfg.perm.as_deref(), cfg.prune, cfg.use_hash, cfg.vt);
            // re-compressed: one k-mer per node -> compress_graph
            let pr = prune_rows::<K>(&t, inp.stranded);
            let spec = Spec { mode: Mode::Sum };
            let re = project_graph(&compress_graph(inp.stranded, &spec, one_per_kmer::<K>(&pr, inp.stranded).finish(), None));
            // straight after compression of the UNPRUNED table (extensions to rejected k-mers still present)
            let raw = project_base(&compress_rows::<K>(&t, inp.stranded, Mode::Sum, "hash"));
            let edges: Vec<Value> = [&direct, &sharded, &re, &raw].iter().map(|g| real_edges::<K>(g, inp.stranded)).collect();
            debruijn::verif_hooks::set_bytes_per_unit(None);
            (t, direct, sharded, re, raw, edges)
        };
        (run(&inp.reads), run(&reads2))
    });
    debruijn::verif_hooks::set_bytes_per_unit(None);
    sink.end_case();
    let mut e = desc;
    e["case"] = json!(case);
    match res {
        Ok((a, b)) => {
            e["ta"] = rows_json(&a.0);
            e["tb"] = rows_json(&b.0);
            e["runs"] = json!([
                {"variant":"direct","pruned":true,"a":nodes_json(&a.1),"b":nodes_json(&b.1),"ea":a.5[0],"eb":b.5[0]},
                {"variant":"sharded","pruned":true,"a":nodes_json(&a.2),"b":nodes_json(&b.2),"ea":a.5[1],"eb":b.5[1]},
                {"variant":"recompressed","pruned":true,"a":nodes_json(&a.3),"b":nodes_json(&b.3),"ea":a.5[2],"eb":b.5[2]},
                {"variant":"unpruned","pruned":false,"a":nodes_json(&a.4),"b":nodes_json(&b.4),"ea":a.5[3],"eb":b.5[3]}]);
            e["panic"] = json!("");
        }
        Err(m) => {
            e["ta"] = json!([]);
            e["tb"] = json!([]);
            e["runs"] = json!([]);
            e["panic"] = json!(m);
        }
    }
    sink.emit(e);
}

// ------------------------------------------------------------------------------------------ C18 iterators

/// `iter` events (C18): next()/nth(m) call sequences on every node's k-mer iterator, and whole-graph iteration.
pub fn ev_iter<K: Kmer + Send + Sync>(sink: &Sink, r: &mut Rng, inp: &GInput, nodes: &[NodeP]) {
    let k = inp.k;
    // call sequences per node
    let mut plans: Vec<(usize, Vec<(bool, usize)>)> = Vec::new(); // (node, [(is_nth, m)])
    for (i, n) in nodes.iter().enumerate() {
        let nk = n.s.len() + 1 - k;
        for _ in 0..2 {
            let mut calls = Vec::new();
            let ncalls = r.range(1, 6);
            for _ in 0..ncalls {
                if r.chance(1, 3) {
                    calls.push((false, 0));
                } else {
                    // (usize::MAX and its neighbours: position + skip must not be computed with wrapping arithmetic)
                    let m = *r.pick(&[0usize, 1, 2, 3, 4, 5, 6, 7, nk.saturating_sub(1), nk, nk + 1, nk + 7, nk / 2, usize::MAX, usize::MAX - 1, usize::MAX - nk, usize::MAX / 2 + 1]);
                    calls.push((true, m));
                }
            }
            plans.push((i, calls));
        }
        // full drain by next(), with trailing calls past the end
        plans.push((i, (0..nk + 2).map(|_| (false, 0)).collect()));
    }
    for (ni, calls) in plans {
        let desc = json!({"op":"iter","K":k,"st":inp.stranded,"s":nodes[ni].s,"node":ni,"nnodes":nodes.len(),
            "next_s": if ni + 1 < nodes.len() { json!(nodes[ni+1].s) } else { json!([]) },
            // skips beyond 10^9 are logged as 10^9 (TLC integers are 32 bit; any skip >= the node's k-mer count means the same)
            "calls": calls.iter().map(|c| if c.0 { json!(["nth", std::cmp::min(c.1, 1_000_000_000)]) } else { json!(["next"]) }).collect::<Vec<_>>(),
            "fam":inp.fam,"reads":inp.reads});
        let case = sink.begin_case(&desc);
        let res = guard(|| {
            let g = base_from_nodes::<K>(nodes, inp.stranded).finish_serial();
            let nk = g.get_node_kmer(ni);
            let mut it = nk.into_iter();
            let len0 = it.len();
            let hint0 = it.size_hint();
            let mut outs: Vec<Value> = Vec::new();
            for c in &calls {
                let o = if c.0 { it.nth(c.1) } else { it.next() };
                outs.push(match o {
                    None => json!([]),
                    Some(km) => json!(mer_bases(&km)),
                });
            }
            // after the scripted calls: drain with a cap (an endless stream must not hang the harness)
            let cap = 4 * (nodes[ni].s.len() + 4) + 16;
            let mut rest: Vec<Value> = Vec::new();
            let mut capped = false;
            loop {
                match it.next() {
                    None => break,
                    Some(km) => rest.push(json!(mer_bases(&km))),
                }
                if rest.len() > cap {
                    capped = true;
                    break;
                }
            }
            let after_end: Vec<bool> = (0..3).map(|_| it.next().is_none()).collect();
            (len0, hint0, outs, rest, capped, after_end)
        });
        sink.end_case();
        let mut e = desc;
        e["case"] = json!(case);
        match res {
            Ok((len0, hint0, outs, rest, capped, after_end)) => {
                e["len0"] = json!(len0);
                e["hint0"] = json!([hint0.0, hint0.1.map(|x| json!(x)).unwrap_or(json!(-1))]);
                e["outs"] = json!(outs);
                e["rest"] = json!(rest);
                e["capped"] = json!(capped);
                e["after_end"] = json!(after_end);
                e["panic"] = json!("");
            }
            Err(m) => {
                e["len0"] = json!(0);
                e["hint0"] = json!([0, 0]);
                e["outs"] = json!([]);
                e["rest"] = json!([]);
                e["capped"] = json!(false);
                e["after_end"] = json!([]);
                e["panic"] = json!(m);
            }
        }
        sink.emit(e);
    }
    // whole graph: every k-mer exactly once; a perfect-hash index over the iteration gives distinct slots
    let desc = json!({"op":"iterall","K":k,"st":inp.stranded,"nodes":nodes_json(nodes),"fam":inp.fam,"reads":inp.reads});
    let case = sink.begin_case(&desc);
    let res = guard(|| {
        let g = base_from_nodes::<K>(nodes, inp.stranded).finish_serial();
        let mut all: Vec<Vec<u8>> = Vec::new();
        let mut lens: Vec<usize> = Vec::new();
        for nk in &g {
            let it = nk.into_iter();
            lens.push(it.len());
            for km in it {
                all.push(mer_bases(&km));
            }
        }
        // the node iterator and the Node accessors: ids 0..n-1 in order, each with its own sequence / extensions / payload
        let via_iter: Vec<Value> = g.iter_nodes().map(|nd| json!({"id": nd.node_id, "len": nd.len(), "empty": nd.is_empty(),
            "s": nd.sequence().bytes(), "l": exts_l(nd.exts()), "r": exts_r(nd.exts()), "d": nd.data()})).collect();
        let n = all.len() as u64;
        let mut slots: Vec<u64> = Vec::new();
        let mut pslots: Vec<u64> = Vec::new();
        if n > 0 {
            let m = boomphf::Mphf::<K>::from_chunked_iterator(1.7, &g, n);
            let mp = boomphf::Mphf::<K>::from_chunked_iterator_parallel(1.7, &g, None, n, 3);
            for km in &all {
                let kk = K::from_bytes(km);
                slots.push(m.hash(&kk));
                pslots.push(mp.hash(&kk));
            }
        }
        (all, lens, slots, pslots, via_iter, g.len(), g.is_empty())
    });
    sink.end_case();
    let mut e = desc;
    e["case"] = json!(case);
    match res {
        Ok((all, lens, slots, pslots, via_iter, glen, gempty)) => {
            e["via_iter"] = json!(via_iter);
            e["glen"] = json!(glen);
            e["gempty"] = json!(gempty);
            e["all"] = json!(all);
            e["lens"] = json!(lens);
            e["slots"] = json!(slots);
            e["pslots"] = json!(pslots);
            e["panic"] = json!("");
        }
        Err(m) => {
            e["all"] = json!([]);
            e["lens"] = json!([]);
            e["slots"] = json!([]);
            e["pslots"] = json!([]);
            e["via_iter"] = json!([]);
            e["glen"] = json!(0);
            e["gempty"] = json!(true);
            e["panic"] = json!(m);
        }
    }
    sink.emit(e);
}

// ------------------------------------------------------------------------------------------ C20 exports

fn parse_gfa(text: &str) -> (Vec<Value>, Vec<Value>, Vec<String>, usize) {
    let mut segs = Vec::new();
    let mut links = Vec::new();
    let mut tags = Vec::new();
    let mut other = 0usize;
    for (i, ln) in text.lines().enumerate() {
        let f: Vec<&str> = ln.split('\t').collect();
        match f[0] {
            "H" if i == 0 => {}
            "S" if f.len() >= 3 => {
                segs.push(json!([f[1].parse::<i64>().unwrap_or(-1), f[2]]));
                tags.push(if f.len() > 3 { f[3..].join("\t") } else { String::new() });
            }
            "L" if f.len() == 6 => links.push(json!([f[1].parse::<i64>().unwrap_or(-1), f[2], f[3].parse::<i64>().unwrap_or(-1), f[4], f[5]])),
            _ => other += 1,
        }
    }
    (segs, links, tags, other)
}

/// `export` event (C20): GFA (three writers) and JSON renderings of a finished graph.
/// DOT text -> (node lines [id, len], edge lines [from, to, colour], number of lines that are neither; the frame counts as well-formed)
fn parse_dot(t: &str) -> (Vec<Value>, Vec<Value>, usize) {
    let mut nodes = vec![];
    let mut edges = vec![];
    let mut other = 0usize;
    let lines: Vec<&str> = t.lines().collect();
    for (i, ln) in lines.iter().enumerate() {
        if (i == 0 && *ln == "digraph {") || (i + 1 == lines.len() && *ln == "}") {
            continue;
        }
        let num = |s: &str| s.strip_prefix('n').and_then(|x| x.parse::<i64>().ok());
        let w: Vec<&str> = ln.split(' ').collect();
        if w.len() == 4 && w[1] == "->" {
            let col = w[3].strip_prefix("[color=").and_then(|x| x.strip_suffix(']'));
            match (num(w[0]), num(w[2]), col) {
                (Some(a), Some(b), Some(c)) => edges.push(json!([a, b, c])),
                _ => other += 1,
            }
        } else if let Some(rest) = ln.strip_suffix("  x\",style=filled]") {
            // n{id} [label="id:{id} len:{len}  x",style=filled]
            let parts: Vec<&str> = rest.split(' ').collect();
            let ok = parts.len() == 3 && parts[1].starts_with("[label=\"id:") && parts[2].starts_with("len:");
            match (ok, num(parts.get(0).copied().unwrap_or("")), parts.get(1).and_then(|x| x.strip_prefix("[label=\"id:")).and_then(|x| x.parse::<i64>().ok()),
                   parts.get(2).and_then(|x| x.strip_prefix("len:")).and_then(|x| x.parse::<i64>().ok())) {
                (true, Some(a), Some(b), Some(l)) if a == b => nodes.push(json!([a, l])),
                _ => other += 1,
            }
        } else {
            other += 1;
        }
    }
    (nodes, edges, other)
}

pub fn ev_export<K: Kmer + Send + Sync>(sink: &Sink, inp: &GInput, nodes: &[NodeP], tmpdir: &str) {
    let desc = json!({"op":"export","K":inp.k,"st":inp.stranded,"reads":inp.reads,"nodes":nodes_json(nodes),"fam":inp.fam});
    let case = sink.begin_case(&desc);
    let res = guard(|| {
        let g = base_from_nodes::<K>(nodes, inp.stranded).finish();
        let mut buf: Vec<u8> = Vec::new();
        g.write_gfa(&mut buf).expect("write_gfa");
        let gfa = String::from_utf8_lossy(&buf).to_string();
        let p1 = format!("{}/g-{}.gfa", tmpdir, std::process::id());
        let p2 = format!("{}/t-{}.gfa", tmpdir, std::process::id());
        // the target paths already hold a longer file: an export replaces the file, it does not overwrite its head
        let stale: String = (0..(nodes.len() * 40 + 400)).map(|i| format!("S\t{}\tACGTACGTACGT\nL\t{}\t+\t{}\t-\t3M\n", 900000 + i, 900000 + i, i)).collect();
        std::fs::write(&p1, &stale).expect("prefill");
        std::fs::write(&p2, &stale).expect("prefill");
        g.to_gfa(&p1).expect("to_gfa");
        g.to_gfa_with_tags(&p2, |n| format!("LN:i:{}", n.len())).expect("to_gfa_with_tags");
        let gfa_file = std::fs::read_to_string(&p1).unwrap_or_default();
        let gfa_tags = std::fs::read_to_string(&p2).unwrap_or_default();
        let _ = std::fs::remove_file(&p1);
        let _ = std::fs::remove_file(&p2);
        let p3 = format!("{}/d-{}.dot", tmpdir, std::process::id());
        g.to_dot(&p3, &|_d: &D| "x".to_string());
        let dot = std::fs::read_to_string(&p3).unwrap_or_default();
        let _ = std::fs::remove_file(&p3);
        let mut jb: Vec<u8> = Vec::new();
        g.to_json_rest(|d: &D| json!(d), &mut jb, None);
        let jtxt = String::from_utf8_lossy(&jb).to_string();
        let mut jb2: Vec<u8> = Vec::new();
        g.to_json_rest(|d: &D| json!(d), &mut jb2, Some(json!({"extra": 7, "name": "x"})));
        let jtxt2 = String::from_utf8_lossy(&jb2).to_string();
        (gfa, gfa_file, gfa_tags, jtxt, jtxt2, dot)
    });
    sink.end_case();
    let mut e = desc;
    e["case"] = json!(case);
    match res {
        Ok((gfa, gfa_file, gfa_tags, jtxt, jtxt2, dot)) => {
            let (dn, de, dother) = parse_dot(&dot);
            e["dot_nodes"] = json!(dn);
            e["dot_edges"] = json!(de);
            e["dot_other_lines"] = json!(dother);
            let (segs, links, _, other) = parse_gfa(&gfa);
            let (segs_t, links_t, tags, other_t) = parse_gfa(&gfa_tags);
            e["segs"] = json!(segs);
            e["links"] = json!(links);
            e["gfa_other_lines"] = json!(other + other_t);
            e["file_same"] = json!(gfa == gfa_file);
            e["tags_same"] = json!(segs == segs_t && links == links_t);
            e["tags"] = json!(tags);
            let parse_json = |t: &str| -> (bool, Vec<Value>, Vec<Value>, Value) {
                match serde_json::from_str::<Value>(t) {
                    Ok(v) => {
                        let jn: Vec<Value> = v["nodes"].as_array().map(|a| a.iter().map(|n| {
                            json!([n["id"].as_str().and_then(|s| s.parse::<i64>().ok()).unwrap_or(-1), n["L"].as_i64().unwrap_or(-1),
                                   n["Se"].as_str().unwrap_or("?"), n["D"].clone()])}).collect()).unwrap_or_default();
                        let jl: Vec<Value> = v["links"].as_array().map(|a| a.iter().map(|n| {
                            json!([n["source"].as_str().and_then(|s| s.parse::<i64>().ok()).unwrap_or(-1),
                                   n["target"].as_str().and_then(|s| s.parse::<i64>().ok()).unwrap_or(-1), n["D"].as_str().unwrap_or("?")])}).collect()).unwrap_or_default();
                        let has = v.get("nodes").map(|x| x.is_array()).unwrap_or(false) && v.get("links").map(|x| x.is_array()).unwrap_or(false);
                        let extra = json!([v.get("extra").cloned().unwrap_or(json!(-1)), v.get("name").cloned().unwrap_or(json!(""))]);
                        (has, jn, jl, extra)
                    }
                    Err(_) => (false, vec![], vec![], json!([])),
                }
            };
            let (ok1, jn, jl, _) = parse_json(&jtxt);
            let (ok2, jn2, jl2, extra) = parse_json(&jtxt2);
            e["json_ok"] = json!(ok1);
            e["json_nodes"] = json!(jn);
            e["json_links"] = json!(jl);
            e["json_rest_ok"] = json!(ok2 && jn == jn2 && jl == jl2 && extra == json!([7, "x"]));
            e["panic"] = json!("");
        }
        Err(m) => {
            for f in ["segs", "links", "tags", "json_nodes", "json_links"] {
                e[f] = json!([]);
            }
            e["gfa_other_lines"] = json!(0);
            e["file_same"] = json!(false);
            e["tags_same"] = json!(false);
            e["json_ok"] = json!(false);
            e["json_rest_ok"] = json!(false);
            e["panic"] = json!(m);
        }
    }
    sink.emit(e);
}

fn graph_answers<K: Kmer>(g: &DebruijnGraph<K, D>, probes: &[(Vec<u8>, Dir)]) -> Value {
    let pv: Vec<Value> = probes.iter().map(|(x, d)| link_json(g.find_link(K::from_bytes(x), *d))).collect();
    let mut ev: Vec<Value> = Vec::new();
    for i in 0..g.len() {
        let n = g.get_node(i);
        for d in [Dir::Left, Dir::Right] {
            ev.push(json!(n.edges(d).iter().map(|x| json!([x.0, dir_str(x.1), x.2])).collect::<Vec<_>>()));
        }
    }
    json!({"stranded": g.base.stranded, "nodes": nodes_json(&project_graph(g)), "links": pv, "edges": ev})
}

pub fn probe_set(r: &mut Rng, nodes: &[NodeP], k: usize, extra_absent: usize) -> Vec<(Vec<u8>, Dir)> {
    let mut probes: Vec<(Vec<u8>, Dir)> = Vec::new();
    for n in nodes {
        if n.s.len() < k {
            continue;
        }
        let first = n.s[..k].to_vec();
        let last = n.s[n.s.len() - k..].to_vec();
        for t in [&first, &last] {
            for d in [Dir::Left, Dir::Right] {
                probes.push((t.clone(), d));
                probes.push((rc_bytes(t), d));
            }
        }
        if n.s.len() > k + 1 {
            let i = r.range(1, n.s.len() - k - 1);
            probes.push((n.s[i..i + k].to_vec(), *r.pick(&[Dir::Left, Dir::Right])));
        }
    }
    for _ in 0..extra_absent {
        probes.push((r.dna(k, &[0, 1, 2, 3]), *r.pick(&[Dir::Left, Dir::Right])));
    }
    probes
}

/// `serde` events (C20): JSON round trips of k-mers, strings, extension sets, directions and graphs.
pub fn ev_serde<K: Kmer + Send + Sync + serde::Serialize + serde::de::DeserializeOwned>(
    sink: &Sink,
    r: &mut Rng,
    inp: &GInput,
    nodes: &[NodeP],
) {
    let k = inp.k;
    let probes = probe_set(r, nodes, k, 6);
    let kmers: Vec<Vec<u8>> = (0..6).map(|_| r.dna(k, &[0, 1, 2, 3])).collect();
    let slen = *r.pick(&[0usize, 1, 31, 32, 33, 64, 65, 100]);
    let sbytes = r.dna(slen, &[0, 1, 2, 3]);
    let extv: Vec<u8> = (0..4).map(|_| (r.next() & 0xff) as u8).collect();
    let desc = json!({"op":"serde","K":k,"st":inp.stranded,"reads":inp.reads,"nodes":nodes_json(nodes),"fam":inp.fam,
        "kmers":kmers,"s":sbytes,"exts":extv});
    let case = sink.begin_case(&desc);
    let res = guard(|| {
        let mut items: Vec<Value> = Vec::new();
        // k-mers: value, order and hash-equality survive
        for km in &kmers {
            let a = K::from_bytes(km);
            let txt = serde_json::to_string(&a).unwrap();
            let b: K = serde_json::from_str(&txt).unwrap();
            items.push(json!({"ty":"kmer","before":mer_bases(&a),"after":mer_bases(&b),"eq": a == b, "rc_eq": a.rc() == b.rc()}));
        }
        let ds = DnaString::from_bytes(&sbytes);
        let txt = serde_json::to_string(&ds).unwrap();
        let ds2: DnaString = serde_json::from_str(&txt).unwrap();
        items.push(json!({"ty":"dnastring","before":ds.to_bytes(),"after":ds2.to_bytes(),"eq": ds == ds2, "rc_eq": ds.rc() == ds2.rc()}));
        for v in &extv {
            let a = Exts::new(*v);
            let b: Exts = serde_json::from_str(&serde_json::to_string(&a).unwrap()).unwrap();
            items.push(json!({"ty":"exts","before":[exts_l(a), exts_r(a)],"after":[exts_l(b), exts_r(b)],"eq": a == b, "rc_eq": a.rc() == b.rc()}));
        }
        for d in [Dir::Left, Dir::Right] {
            let b: Dir = serde_json::from_str(&serde_json::to_string(&d).unwrap()).unwrap();
            items.push(json!({"ty":"dir","before":dir_str(d),"after":dir_str(b),"eq": dir_str(d) == dir_str(b), "rc_eq": dir_str(d.flip()) == dir_str(b.flip())}));
        }
        // base graph and finished graph: same projection and same answers to every probe
        let base = base_from_nodes::<K>(nodes, inp.stranded);
        let base2: BaseGraph<K, D> = serde_json::from_str(&serde_json::to_string(&base).unwrap()).unwrap();
        items.push(json!({"ty":"basegraph","before":{"st":base.stranded,"nodes":nodes_json(&project_base(&base))},
            "after":{"st":base2.stranded,"nodes":nodes_json(&project_base(&base2))},"eq":true,"rc_eq":true}));
        let g = base.finish();
        let g2: DebruijnGraph<K, D> = serde_json::from_str(&serde_json::to_string(&g).unwrap()).unwrap();
        items.push(json!({"ty":"graph","before":graph_answers(&g, &probes),"after":graph_answers(&g2, &probes),"eq":true,"rc_eq":true}));
        // combining shard graphs keeps every node in order; mixing strandedness must be refused (panic)
        let half = nodes.len() / 2;
        let ga = base_from_nodes::<K>(&nodes[..half], inp.stranded);
        let gb = base_from_nodes::<K>(&nodes[half..], inp.stranded);
        let comb = BaseGraph::combine(vec![ga, gb].into_iter());
        items.push(json!({"ty":"combine","before":{"st":inp.stranded,"nodes":nodes_json(nodes)},
            "after":{"st":comb.stranded,"nodes":nodes_json(&project_base(&comb))},"eq":true,"rc_eq":true}));
        let mixed = std::panic::catch_unwind(|| {
            let a: BaseGraph<K, D> = BaseGraph::new(true);
            let b: BaseGraph<K, D> = BaseGraph::new(false);
            BaseGraph::combine(vec![a, b].into_iter()).stranded
        });
        items.push(json!({"ty":"combine-mixed","before":"refused","after": if mixed.is_err() { "refused" } else { "accepted" },"eq":true,"rc_eq":true}));
        items
    });
    sink.end_case();
    let mut e = desc;
    e["case"] = json!(case);
    match res {
        Ok(items) => {
            e["items"] = json!(items);
            e["panic"] = json!("");
        }
        Err(m) => {
            e["items"] = json!([]);
            e["panic"] = json!(m);
        }
    }
    sink.emit(e);
}

// ------------------------------------------------------------------------------------------ C19 index

fn answers_digest<K: Kmer>(g: &DebruijnGraph<K, D>, probes: &[(Vec<u8>, Dir)]) -> (String, Vec<Value>) {
    let mut acc: Vec<u8> = Vec::new();
    let mut ans = Vec::new();
    for (x, d) in probes {
        let a = g.find_link(K::from_bytes(x), *d);
        match a {
            None => acc.push(255),
            Some((n, s, f)) => {
                acc.extend_from_slice(&(n as u64).to_le_bytes());
                acc.push(if let Dir::Left = s { 0 } else { 1 });
                acc.push(f as u8);
            }
        }
        ans.push(link_json(a));
    }
    for i in 0..g.len() {
        let n = g.get_node(i);
        acc.extend_from_slice(&(n.sequence().len() as u64).to_le_bytes());
        if g.len() <= 5000 || i % 97 == 0 {
            acc.extend(mer_bases(&n.sequence()));
            for d in [Dir::Left, Dir::Right] {
                for e in n.edges(d) {
                    acc.extend_from_slice(&(e.0 as u64).to_le_bytes());
                    acc.push(if let Dir::Left = e.1 { 0 } else { 1 });
                    acc.push(e.2 as u8);
                }
                acc.push(254);
            }
        }
    }
    (fnv(&acc), ans)
}

/// `index` event (C19): finish() under thread pools of several sizes, repeatedly, against finish_serial().
pub fn ev_index<K: Kmer + Send + Sync>(sink: &Sink, r: &mut Rng, inp: &GInput, nodes: &[NodeP], pools: &[usize], reps: usize, embed: bool) {
    let k = inp.k;
    let mut probes = probe_set(r, nodes, k, 40);
    if probes.len() > 4000 {
        r.shuffle(&mut probes);
        probes.truncate(4000);
    }
    let desc = json!({"op":"index","K":k,"st":inp.stranded,"n_nodes":nodes.len(),"fam":inp.fam,
        "reads": if embed { json!(inp.reads) } else { json!([]) },
        "nodes": if embed { nodes_json(nodes) } else { json!([]) }, "embed": embed, "pools": pools, "reps": reps});
    let case = sink.begin_case(&desc);
    let res = guard(|| {
        let serial = base_from_nodes::<K>(nodes, inp.stranded).finish_serial();
        let (d0, a0) = answers_digest(&serial, &probes);
        let mut runs: Vec<Value> = Vec::new();
        for t in pools {
            let pool = rayon::ThreadPoolBuilder::new().num_threads(*t).build().unwrap();
            for rep in 0..reps {
                let g = pool.install(|| base_from_nodes::<K>(nodes, inp.stranded).finish());
                let (d, _) = answers_digest(&g, &probes);
                runs.push(json!({"threads": t, "rep": rep, "digest": d}));
            }
        }
        (d0, a0, runs)
    });
    sink.end_case();
    let mut e = desc;
    e["case"] = json!(case);
    match res {
        Ok((d0, a0, runs)) => {
            e["serial"] = json!(d0);
            e["runs"] = json!(runs);
            // sample of answers (all when the graph is embedded); for big graphs each answer carries the
            // terminal k-mers of the answering node so the oracle can judge it without the whole graph
            let mut sample: Vec<Value> = Vec::new();
            let step = if embed { 1 } else { std::cmp::max(1, probes.len() / 400) };
            let mut by_first: std::collections::HashMap<&[u8], usize> = std::collections::HashMap::new();
            let mut by_last: std::collections::HashMap<&[u8], usize> = std::collections::HashMap::new();
            if !embed {
                for (i, n) in nodes.iter().enumerate() {
                    by_first.insert(&n.s[..k], i);
                    by_last.insert(&n.s[n.s.len() - k..], i);
                }
            }
            for i in (0..probes.len()).step_by(step) {
                let (x, d) = &probes[i];
                let a = &a0[i];
                let (first, last) = match a.as_array().and_then(|v| v.first()).and_then(|v| v.as_u64()) {
                    Some(n) => {
                        let s = &nodes[n as usize].s;
                        (s[..k].to_vec(), s[s.len() - k..].to_vec())
                    }
                    None => (vec![], vec![]),
                };
                let rcx = rc_bytes(x);
                let g = |m: &std::collections::HashMap<&[u8], usize>, key: &[u8]| m.get(key).map(|v| *v as i64).unwrap_or(-1);
                sample.push(json!({"k": x, "dir": dir_str(*d), "ans": a, "first": first, "last": last,
                    "ff": g(&by_first, x), "ll": g(&by_last, x), "fr": g(&by_first, &rcx), "lr": g(&by_last, &rcx)}));
            }
            e["sample"] = json!(sample);
            e["panic"] = json!("");
        }
        Err(m) => {
            e["serial"] = json!("");
            e["runs"] = json!([]);
            e["sample"] = json!([]);
            e["panic"] = json!(m);
        }
    }
    sink.emit(e);
}

/// a big graph of short nodes (1-4 k-mers each) with pairwise distinct terminal k-mers on both strands, so that the
/// parallel index builder really splits the work and first / last k-mers differ
pub fn big_nodes(r: &mut Rng, k: usize, n: usize, stranded: bool) -> Vec<NodeP> {
    let mut seen: std::collections::HashSet<Vec<u8>> = std::collections::HashSet::new();
    let mut out = Vec::with_capacity(n);
    let canon = |s: &[u8]| if stranded { s.to_vec() } else { std::cmp::min(s.to_vec(), rc_bytes(s)) };
    while out.len() < n {
        let len = k + r.below(4);
        let mut s = r.dna(len, &[0, 1, 2, 3]);
        // some nodes start or end with a k-mer that is its own reverse complement (even K): such a node end is found
        // through the reverse-complement probe of find_link when asked from the other side
        if k % 2 == 0 && r.chance(1, 6) {
            let h = r.dna(k / 2, &[0, 1, 2, 3]);
            let mut pal = h.clone();
            pal.extend(rc_bytes(&h));
            if r.chance(1, 2) {
                s[..k].copy_from_slice(&pal);
            } else {
                s[len - k..].copy_from_slice(&pal);
            }
        }
        let f = canon(&s[..k]);
        let l = canon(&s[len - k..]);
        if seen.contains(&f) || seen.contains(&l) || (len > k && f == l) {
            continue;
        }
        seen.insert(f);
        seen.insert(l);
        out.push(NodeP { s, l: vec![], r: vec![], d: vec![1] });
    }
    out
}


// ------------------------------------------------------------------------------------------ life-cycle histories

/// A life-cycle history on ONE real graph object carried from step to step (never rebuilt from its projection):
/// table -> compress (entry point) -> finish -> { query | fix_exts(valid) | compress_graph(censor) }* .
/// The trace spec keeps the abstract graph in a variable and judges every step against the state it carried.
pub fn lifecycle<K: Kmer + Send + Sync>(sink: &Sink, r: &mut Rng, inp: &GInput) {
    let rows = match guard(|| {
        let t = table_from_reads::<K>(&inp.reads, inp.stranded, inp.thr, inp.mode);
        if inp.thr > 1 { prune_rows::<K>(&t, inp.stranded) } else { t }
    }) {
        Ok(t) => t,
        Err(_) => return,
    };
    sink.emit(json!({"op":"begin","dom":"lifecycle","K":inp.k,"st":inp.stranded,"thr":inp.thr,"mode":inp.mode.name(),
        "reads":inp.reads,"table":rows_json(&rows),"fam":inp.fam,"case":0,"panic":""}));
    let entry = *r.pick(&["hash", "slice"]);
    let desc = json!({"op":"lc_compress","K":inp.k,"entry":entry,"fam":inp.fam,"reads":inp.reads});
    let case = sink.begin_case(&desc);
    let res = guard(|| compress_rows::<K>(&rows, inp.stranded, inp.mode, entry));
    sink.end_case();
    let mut e = desc;
    e["case"] = json!(case);
    let base = match res {
        Ok(b) => {
            e["nodes"] = nodes_json(&project_base(&b));
            e["panic"] = json!("");
            sink.emit(e);
            b
        }
        Err(m) => {
            e["nodes"] = json!([]);
            e["panic"] = json!(m);
            sink.emit(e);
            return;
        }
    };
    let mut dbg: DebruijnGraph<K, D> = match guard(|| base.finish()) {
        Ok(g) => g,
        Err(_) => return,
    };
    let spec = Spec { mode: inp.mode };
    let steps = r.range(2, 5);
    for _ in 0..steps {
        let cur = project_graph(&dbg);
        let choice = r.below(3);
        if choice == 0 {
            // query the carried graph
            let probes = probe_set(r, &cur, inp.k, 6);
            let desc = json!({"op":"lc_query","K":inp.k,"cur":nodes_json(&cur),"fam":inp.fam,"reads":inp.reads});
            let case = sink.begin_case(&desc);
            let res = guard(|| {
                let pv: Vec<Value> = probes.iter().map(|(x, d)| json!({"k": x, "dir": dir_str(*d), "ans": link_json(dbg.find_link(K::from_bytes(x), *d))})).collect();
                let mut ev: Vec<Value> = Vec::new();
                for i in 0..dbg.len() {
                    for d in [Dir::Left, Dir::Right] {
                        ev.push(json!({"n": i, "dir": dir_str(d), "same": true,
                            "e": dbg.get_node(i).edges(d).iter().map(|x| json!([x.0, dir_str(x.1), x.2])).collect::<Vec<_>>()}));
                    }
                }
                (pv, ev)
            });
            sink.end_case();
            let mut e = desc;
            e["case"] = json!(case);
            match res {
                Ok((pv, ev)) => {
                    e["probes"] = json!(pv);
                    e["edges"] = json!(ev);
                    e["panic"] = json!("");
                    sink.emit(e);
                }
                Err(m) => {
                    e["probes"] = json!([]);
                    e["edges"] = json!([]);
                    e["panic"] = json!(m);
                    sink.emit(e);
                    return;
                }
            }
        } else if choice == 1 {
            // fix_exts(None) only: with a proper subset of valid nodes the result is not a valid graph on its own (it is an
            // intermediate state of compress_graph, covered by the stand-alone `fixexts` event)
            let use_valid = false;
            let valid: Vec<usize> = (0..cur.len()).collect();
            let desc = json!({"op":"lc_fixexts","K":inp.k,"cur":nodes_json(&cur),"use_valid":use_valid,"valid":valid,"fam":inp.fam,"reads":inp.reads});
            let case = sink.begin_case(&desc);
            let res = guard(|| {
                if use_valid {
                    let mut bs = bit_set::BitSet::with_capacity(cur.len());
                    for v in &valid {
                        bs.insert(*v);
                    }
                    dbg.fix_exts(Some(&bs));
                } else {
                    dbg.fix_exts(None);
                }
                project_graph(&dbg)
            });
            sink.end_case();
            let mut e = desc;
            e["case"] = json!(case);
            match res {
                Ok(a) => {
                    e["after"] = nodes_json(&a);
                    e["panic"] = json!("");
                    sink.emit(e);
                }
                Err(m) => {
                    e["after"] = json!([]);
                    e["panic"] = json!(m);
                    sink.emit(e);
                    return;
                }
            }
        } else {
            let p = r.range(0, 2);
            let mut cens: Vec<usize> = (0..cur.len()).filter(|_| r.chance(p, 6)).collect();
            if r.chance(1, 2) {
                r.shuffle(&mut cens);
            }
            let desc = json!({"op":"lc_recompress","K":inp.k,"cur":nodes_json(&cur),"censor":cens,"fam":inp.fam,"reads":inp.reads});
            let case = sink.begin_case(&desc);
            let taken = std::mem::replace(&mut dbg, BaseGraph::new(inp.stranded).finish_serial());
            let res = guard(|| {
                let out = compress_graph(inp.stranded, &spec, taken, if cens.is_empty() { None } else { Some(cens.clone()) });
                let mut dangling = 0usize;
                for i in 0..out.len() {
                    let n = out.get_node(i);
                    for d in [Dir::Left, Dir::Right] {
                        dangling += (n.exts().num_ext_dir(d) as usize) - n.edges(d).len();
                    }
                }
                (out, dangling)
            });
            sink.end_case();
            let mut e = desc;
            e["case"] = json!(case);
            match res {
                Ok((out, dangling)) => {
                    e["out"] = nodes_json(&project_graph(&out));
                    e["dangling"] = json!(dangling);
                    e["panic"] = json!("");
                    sink.emit(e);
                    dbg = out;
                }
                Err(m) => {
                    e["out"] = json!([]);
                    e["dangling"] = json!(0);
                    e["panic"] = json!(m);
                    sink.emit(e);
                    return;
                }
            }
        }
    }
}
